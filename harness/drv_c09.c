/* C09: roots and perfect powers.  u = k^n, k^n - 1, k^n + 1 for small and large k (runs of one bits), odd and even limb
   counts, n from 1 to beyond the bit length, negative u with odd n; squares +-1 around limb boundaries; mpn_sqrtrem. */
#include "util.h"
static void shrinkz(int i) { callf("mpz_realloc2", i, (uint64_t)(ABSIZ(Zp[i]) ? (uint64_t)ABSIZ(Zp[i]) * 64 : 1)); }
void drv_c09_mpz(int tier, unsigned long seed, const char *extra) {
  shard_t sh = shard_parse(extra); long x = 0; int lk, n, d, neg, j;
  static const int ks_q[] = {0, 1, 2, 3, 4, 7, 12, 25, 60, 130}, ns_q[] = {1, 2, 3, 4, 5, 7, 8, 16, 63, 64, 65, 200};
  int nk = sh.pure ? 3 : (tier ? 10 : 8), nn = sh.pure ? 5 : 12;
  for (lk = 0; lk < nk; lk++) for (n = 0; n < nn; n++) {
    int kl = ks_q[lk], rn = ns_q[n];
    if ((long)kl * rn > (tier ? 1500 : 520)) continue;
    x++; if (!MINE(sh, x)) continue;
    rec_reset("c09_mpz", x, seed);
    for (j = 0; j < 5; j++) callf("mpz_init", j);
    for (neg = 0; neg < 2; neg++) for (d = -1; d <= 2; d++) {
      /* k: kl limbs, kind: all ones / runs / random; u = k^rn + d (d = 2: a random value of the same size instead) */
      if (kl == 0) callf("mpz_set_ui", 0, (uint64_t)rnd_below(40)); else callf("drv_rndz", 0, kl, (d & 1) ? 1 : (int)rnd_below(NKINDS), 0);
      callf("mpz_pow_ui", 1, 0, (uint64_t)rn);
      if (d == 2) callf("drv_rndz", 1, (int)ABSIZ(Zp[1]) ? (int)ABSIZ(Zp[1]) : 1, 0, 0);
      else if (d == 1) callf("mpz_add_ui", 1, 1, (uint64_t)1); else if (d == -1 && SIZ(Zp[1]) > 0) callf("mpz_sub_ui", 1, 1, (uint64_t)1);
      if (neg) callf("mpz_neg", 1, 1);
      if (!neg) { shrinkz(2); callf("mpz_sqrt", 2, 1); shrinkz(2); shrinkz(3); callf("mpz_sqrtrem", 2, 3, 1); callf("mpz_set", 2, 1); callf("mpz_sqrt", 2, 2);
                  callf("mpz_set", 2, 1); callf("mpz_sqrtrem", 2, 3, 2); callf("mpz_set", 3, 1); callf("mpz_sqrtrem", 2, 3, 3); }
      callf("mpz_perfect_square_p", 1);
      if (ABSIZ(Zp[1]) <= 16) callf("mpz_perfect_power_p", 1);
      { static const int idx[] = {1, 2, 3, 5, 6, 7, 64, 65}; int t;
        for (t = 0; t < 8 + 3; t++) { uint64_t r = t < 8 ? (uint64_t)idx[t] : t == 8 ? (uint64_t)rn : t == 9 ? (uint64_t)(mpz_sizeinbase(Zp[1], 2) + rnd_below(3)) : (uint64_t)(rn + 1);
          if (r == 0) r = 1; if (neg && !(r & 1)) continue;
          shrinkz(2); callf("mpz_root", 2, 1, r); shrinkz(2); callf("mpz_nthroot", 2, 1, r); shrinkz(2); shrinkz(3); callf("mpz_rootrem", 2, 3, 1, r);
          if (t == 8) { callf("mpz_set", 2, 1); callf("mpz_root", 2, 2, r); callf("mpz_set", 2, 1); callf("mpz_rootrem", 2, 3, 2, r); callf("mpz_set", 3, 1); callf("mpz_rootrem", 2, 3, 3, r); } } }
    }
    for (j = 0; j < 5; j++) callf("mpz_clear", j);
    rec_quiesce();
  }
}
void drv_c09_mpn(int tier, unsigned long seed, const char *extra) {
  shard_t sh = shard_parse(extra); long x = 0; mp_size_t n; int kind, d;
  mp_size_t maxn = sh.pure ? 4 : (tier ? 120 : 50);
  for (n = 1; n <= maxn; n += (n < 20 ? 1 : 1 + n / 6)) for (kind = 0; kind < (sh.pure ? 2 : NKINDS); kind++) {
    x++; if (!MINE(sh, x)) continue;
    rec_reset("c09_mpn", x, seed);
    for (d = 0; d < 4; d++) {
      mp_size_t hn = (n + 1) / 2, rn; mp_ptr h = gb_get(0, hn, 1), a = gb_get(1, 2 * hn + 1, 1), s = gb_get(2, hn + 1, 1), r = gb_get(3, n + 1, 1); mp_size_t an = n;
      if (d < 3) { /* square of a half-size value, +-1 */ rnd_limbs(h, hn, kind); if (!h[hn - 1]) h[hn - 1] = 1; mpn_sqr(a, h, hn); an = 2 * hn; if (d == 1) mpn_add_1(a, a, an, 1); if (d == 2 && !mpn_zero_p(a, an)) mpn_sub_1(a, a, an, 1); MPN_NORMALIZE(a, an); if (!an) { a[0] = 1; an = 1; } }
      else { rnd_limbs(a, n, kind); if (!a[n - 1]) a[n - 1] = 1; an = n; }
      fn_begin("mpn_sqrtrem"); fn_in_limbs("a", a, an); fn_in_int("n", an); fn_mid(); gb_fill(s, (an + 1) / 2); rn = mpn_sqrtrem(s, r, a, an);
      fn_out_limbs("s", s, (an + 1) / 2); fn_out_limbs("r", r, rn); fn_out_int("rn", rn); fn_end();
      fn_begin("mpn_sqrtrem_null"); fn_in_limbs("a", a, an); fn_in_int("n", an); fn_mid(); rn = mpn_sqrtrem(s, NULL, a, an); fn_out_limbs("s", s, (an + 1) / 2); fn_out_int("rn", rn); fn_end();
      fn_begin("mpn_perfect_square_p"); fn_in_limbs("a", a, an); fn_in_int("n", an); fn_mid(); fn_out_int("ret", mpn_perfect_square_p(a, an)); fn_end();
    }
  }
}

/* c09_sqcorn: u = s^2 + r with the remainder a CORNER of its range 0..2s instead of 0 / +-1 only: r = B^j and B^j - 1 for every limb position j (a remainder that is
   exactly a power of the limb base: its low limbs are all zero and the carry of every fix-up step runs off the top), 2^t, s, 2s - 1, 2s; s with its top bit set (the
   normalised path of mpn_dc_sqrtrem at every recursion level) and without (the shifting wrapper), every n up to 13 root limbs (even and odd splits), then larger.
   Through mpz_sqrtrem / mpz_sqrt / mpz_perfect_square_p and mpn_sqrtrem with and without a remainder area / mpn_perfect_square_p. */
void drv_c09_sqcorn(int tier, unsigned long seed, const char *extra) {
  shard_t sh = shard_parse(extra); long x = 0; int n, kind, j, top, rep;
  static const int big[] = {16, 17, 24, 32, 33, 48, 64, 65};
  int nmax = sh.pure ? 2 : 13, nbig = sh.pure ? 0 : (tier ? 8 : 3);
  for (n = 1; n <= nmax + nbig; n++) for (kind = 0; kind < (sh.pure ? 2 : NKINDS); kind++) for (top = 0; top < 2; top++) {
    int nl = n <= nmax ? n : big[n - nmax - 1], reps = (nl <= 8 && !sh.pure) ? (tier ? 6 : 3) : 1;
    if (nl > 13 && kind > 3) continue;
    x++; if (!MINE(sh, x)) continue;
    rec_reset("c09_sqcorn", x, seed);
    for (j = 0; j < 6; j++) callf("mpz_init", j);
    for (rep = 0; rep < reps; rep++) {
      int nr = 0, t; struct { int kindr; long arg; } rs[80];
      callf("drv_rndz", 0, nl, kind, 0);
      if (top) callf("mpz_setbit", 0, (uint64_t)(64 * nl - 1)); else if (mpz_tstbit(Zp[0], 64 * nl - 1)) callf("mpz_clrbit", 0, (uint64_t)(64 * nl - 1));
      if (SIZ(Zp[0]) == 0) callf("mpz_set_ui", 0, (uint64_t)3);
      callf("mpz_mul", 1, 0, 0);                                   /* s^2 */
      for (j = 0; j <= nl; j++) { if (nl > 13 && j > 2 && j < nl - 2 && j != nl / 2) continue; rs[nr].kindr = 0; rs[nr++].arg = 64L * j; rs[nr].kindr = 1; rs[nr++].arg = 64L * j; }       /* B^j, B^j - 1 */
      rs[nr].kindr = 0; rs[nr++].arg = 64L * nl - 1; rs[nr].kindr = 0; rs[nr++].arg = 32L * nl; rs[nr].kindr = 0; rs[nr++].arg = 63;
      { static const int sh2[] = {2, 4, 6, 32, 62}; int q_; for (q_ = 0; q_ < 5; q_++) { rs[nr].kindr = 0; rs[nr++].arg = 64L * nl - sh2[q_]; } }      /* B^n shifted down by an even count: B^n in the NORMALISED operand when the wrapper shifts by that count */
      rs[nr].kindr = 2; rs[nr++].arg = 0; rs[nr].kindr = 3; rs[nr++].arg = 0; rs[nr].kindr = 4; rs[nr++].arg = 0;                                   /* s, 2s - 1, 2s */
      for (t = 0; t < nr; t++) { mp_size_t an, rn; mp_ptr a, s, r;
        if (rs[t].kindr <= 1) { callf("mpz_set_ui", 2, (uint64_t)0); callf("mpz_setbit", 2, (uint64_t)rs[t].arg); if (rs[t].kindr == 1) callf("mpz_sub_ui", 2, 2, (uint64_t)1); }
        else if (rs[t].kindr == 2) callf("mpz_set", 2, 0); else { callf("mpz_mul_2exp", 2, 0, (uint64_t)1); if (rs[t].kindr == 3) callf("mpz_sub_ui", 2, 2, (uint64_t)1); }
        callf("mpz_mul_2exp", 5, 0, (uint64_t)1); if (mpz_cmp(Zp[2], Zp[5]) > 0) continue;          /* r <= 2s, otherwise the root is not s (still a valid operand, but not this class) */
        callf("mpz_add", 3, 1, 2);                                  /* u = s^2 + r */
        shrinkz(4); shrinkz(5); callf("mpz_sqrtrem", 4, 5, 3); shrinkz(4); callf("mpz_sqrt", 4, 3); callf("mpz_perfect_square_p", 3);
        an = ABSIZ(Zp[3]); a = gb_get(0, an, t & 1); MPN_COPY(a, PTR(Zp[3]), an); s = gb_get(1, (an + 1) / 2, 1); r = gb_get(2, an, 1);
        fn_begin("mpn_sqrtrem"); fn_in_limbs("a", a, an); fn_in_int("n", an); fn_mid(); gb_fill(s, (an + 1) / 2); gb_fill(r, an); rn = mpn_sqrtrem(s, r, a, an);
        fn_out_limbs("s", s, (an + 1) / 2); fn_out_limbs("r", r, rn); fn_out_int("rn", rn); fn_end();
        fn_begin("mpn_sqrtrem_null"); fn_in_limbs("a", a, an); fn_in_int("n", an); fn_mid(); gb_fill(s, (an + 1) / 2); rn = mpn_sqrtrem(s, NULL, a, an); fn_out_limbs("s", s, (an + 1) / 2); fn_out_int("rn", rn); fn_end();
        fn_begin("mpn_perfect_square_p"); fn_in_limbs("a", a, an); fn_in_int("n", an); fn_mid(); fn_out_int("ret", mpn_perfect_square_p(a, an)); fn_end();
      }
    }
    for (j = 0; j < 6; j++) callf("mpz_clear", j);
    rec_quiesce();
  }
}
