/* C09: roots and perfect powers.  u = k^n, k^n - 1, k^n + 1 for small and large k (runs of one bits), odd and even limb
   counts, n from 1 to beyond the bit length, negative u with odd n; squares +-1 around limb boundaries; mpn_sqrtrem. */
#include "util.h"
static void shrinkz(int i) { callf("mpz_realloc2", i, (uint64_t)(ABSIZ(Zp[i]) ? (uint64_t)ABSIZ(Zp[i]) * 64 : 1)); }
void drv_c09_mpz(int tier, unsigned long seed, const char *extra) {
  shard_t sh = shard_parse(extra); long x = 0; int lk, n, d, neg, j;
  static const int ks_q[] = {0, 1, 2, 3, 4, 7, 12, 25, 60, 130}, ns_q[] = {1, 2, 3, 4, 5, 7, 8, 16, 63, 64, 65, 200};
  int nk = sh.pure ? 3 : (tier ? 10 : 8), nn = sh.pure ? 5 : 12;
  for (lk = 0; lk < nk; lk++) for (n = 0; n < nn; n++) {
    int kl = ks_q[lk], rn = ns_q[n];
    if ((long)kl * rn > (tier ? 1500 : 520)) continue;
    x++; if (!MINE(sh, x)) continue;
    rec_reset("c09_mpz", x, seed);
    for (j = 0; j < 5; j++) callf("mpz_init", j);
    for (neg = 0; neg < 2; neg++) for (d = -1; d <= 2; d++) {
      /* k: kl limbs, kind: all ones / runs / random; u = k^rn + d (d = 2: a random value of the same size instead) */
      if (kl == 0) callf("mpz_set_ui", 0, (uint64_t)rnd_below(40)); else callf("drv_rndz", 0, kl, (d & 1) ? 1 : (int)rnd_below(NKINDS), 0);
      callf("mpz_pow_ui", 1, 0, (uint64_t)rn);
      if (d == 2) callf("drv_rndz", 1, (int)ABSIZ(Zp[1]) ? (int)ABSIZ(Zp[1]) : 1, 0, 0);
      else if (d == 1) callf("mpz_add_ui", 1, 1, (uint64_t)1); else if (d == -1 && SIZ(Zp[1]) > 0) callf("mpz_sub_ui", 1, 1, (uint64_t)1);
      if (neg) callf("mpz_neg", 1, 1);
      if (!neg) { shrinkz(2); callf("mpz_sqrt", 2, 1); shrinkz(2); shrinkz(3); callf("mpz_sqrtrem", 2, 3, 1); callf("mpz_set", 2, 1); callf("mpz_sqrt", 2, 2);
                  callf("mpz_set", 2, 1); callf("mpz_sqrtrem", 2, 3, 2); callf("mpz_set", 3, 1); callf("mpz_sqrtrem", 2, 3, 3); }
      callf("mpz_perfect_square_p", 1);
      if (ABSIZ(Zp[1]) <= 16) callf("mpz_perfect_power_p", 1);
      { static const int idx[] = {1, 2, 3, 5, 6, 7, 64, 65}; int t;
        for (t = 0; t < 8 + 3; t++) { uint64_t r = t < 8 ? (uint64_t)idx[t] : t == 8 ? (uint64_t)rn : t == 9 ? (uint64_t)(mpz_sizeinbase(Zp[1], 2) + rnd_below(3)) : (uint64_t)(rn + 1);
          if (r == 0) r = 1; if (neg && !(r & 1)) continue;
          shrinkz(2); callf("mpz_root", 2, 1, r); shrinkz(2); callf("mpz_nthroot", 2, 1, r); shrinkz(2); shrinkz(3); callf("mpz_rootrem", 2, 3, 1, r);
          if (t == 8) { callf("mpz_set", 2, 1); callf("mpz_root", 2, 2, r); callf("mpz_set", 2, 1); callf("mpz_rootrem", 2, 3, 2, r); callf("mpz_set", 3, 1); callf("mpz_rootrem", 2, 3, 3, r); } } }
    }
    for (j = 0; j < 5; j++) callf("mpz_clear", j);
    rec_quiesce();
  }
}
void drv_c09_mpn(int tier, unsigned long seed, const char *extra) {
  shard_t sh = shard_parse(extra); long x = 0; mp_size_t n; int kind, d;
  mp_size_t maxn = sh.pure ? 4 : (tier ? 120 : 50);
  for (n = 1; n <= maxn; n += (n < 20 ? 1 : 1 + n / 6)) for (kind = 0; kind < (sh.pure ? 2 : NKINDS); kind++) {
    x++; if (!MINE(sh, x)) continue;
    rec_reset("c09_mpn", x, seed);
    for (d = 0; d < 4; d++) {
      mp_size_t hn = (n + 1) / 2, rn; mp_ptr h = gb_get(0, hn, 1), a = gb_get(1, 2 * hn + 1, 1), s = gb_get(2, hn + 1, 1), r = gb_get(3, n + 1, 1); mp_size_t an = n;
      if (d < 3) { /* square of a half-size value, +-1 */ rnd_limbs(h, hn, kind); if (!h[hn - 1]) h[hn - 1] = 1; mpn_sqr(a, h, hn); an = 2 * hn; if (d == 1) mpn_add_1(a, a, an, 1); if (d == 2 && !mpn_zero_p(a, an)) mpn_sub_1(a, a, an, 1); MPN_NORMALIZE(a, an); if (!an) { a[0] = 1; an = 1; } }
      else { rnd_limbs(a, n, kind); if (!a[n - 1]) a[n - 1] = 1; an = n; }
      fn_begin("mpn_sqrtrem"); fn_in_limbs("a", a, an); fn_in_int("n", an); fn_mid(); gb_fill(s, (an + 1) / 2); rn = mpn_sqrtrem(s, r, a, an);
      fn_out_limbs("s", s, (an + 1) / 2); fn_out_limbs("r", r, rn); fn_out_int("rn", rn); fn_end();
      fn_begin("mpn_sqrtrem_null"); fn_in_limbs("a", a, an); fn_in_int("n", an); fn_mid(); rn = mpn_sqrtrem(s, NULL, a, an); fn_out_limbs("s", s, (an + 1) / 2); fn_out_int("rn", rn); fn_end();
      fn_begin("mpn_perfect_square_p"); fn_in_limbs("a", a, an); fn_in_int("n", an); fn_mid(); fn_out_int("ret", mpn_perfect_square_p(a, an)); fn_end();
    }
  }
}
