/* C13 (text and the remaining mpf functions): mpf_set_str / mpf_init_set_str on generated strings of the documented grammar
   (every base class, point at every position class, exponent markers and signs, exponents in decimal or in the base),
   mpf_get_str for requested digit counts up to what the precision carries, and mpf_pow_ui, mpf_cmp_z, mpf_eq, mpf_reldiff,
   mpf_size, mpf_get/set_default_prec, mpf_inits/mpf_clears, mpf_rrandomb. */
#include "util.h"
static const char A36L[] = "0123456789abcdefghijklmnopqrstuvwxyz", A36U[] = "0123456789ABCDEFGHIJKLMNOPQRSTUVWXYZ",
                  A62[] = "0123456789ABCDEFGHIJKLMNOPQRSTUVWXYZabcdefghijklmnopqrstuvwxyz";
static int put_digits(char *o, int n, int ab, int kind) {      /* n digits of base ab; kind 0 random, 1 all max digit, 2 one then zeros, 3 zeros then one */
  int i; for (i = 0; i < n; i++) {
    int d = kind == 0 ? (int)rnd_below(ab) : kind == 1 ? ab - 1 : kind == 2 ? (i == 0) : (i == n - 1);
    o[i] = ab > 36 ? A62[d] : (rnd_below(2) ? A36L[d] : A36U[d]); }
  return n;
}
static int put_int(char *o, long v, int eb) {                  /* |v| in base eb (lower case / 62-alphabet), returns length */
  char t[80]; int n = 0, i; unsigned long u = v < 0 ? -v : v;
  if (!u) t[n++] = '0'; while (u) { int d = (int)(u % eb); t[n++] = eb > 36 ? A62[d] : A36L[d]; u /= eb; }
  for (i = 0; i < n; i++) o[i] = t[n - 1 - i]; return n;
}
/* a string of the grammar; returns its length */
static int gen_str(char *o, int base, int ni, int nf, int kind, int expform, long ex) {
  int ab = base < 0 ? -base : base, eb = base < 0 ? 10 : base, n = 0;
  if (rnd_below(5) == 0) { o[n++] = ' '; if (rnd_below(2)) o[n++] = '\t'; }
  if (rnd_below(2)) o[n++] = '-';
  n += put_digits(o + n, ni, ab, kind);
  if (nf >= 0) { o[n++] = '.'; n += put_digits(o + n, nf, ab, kind == 2 ? 3 : kind); }
  if (expform) { o[n++] = (ab <= 10 && expform == 2) ? (rnd_below(2) ? 'e' : 'E') : '@';
    if (ex < 0) o[n++] = '-'; else if (expform == 3) o[n++] = '+';
    n += put_int(o + n, ex, eb); }
  o[n] = 0; return n;
}
static void setf_any(int i, int kind) {
  mp_limb_t buf[80]; int n = 1 + (int)rnd_below(PREC(Fp[i]) + 1); char *h;
  if (n > 60) n = 60; rnd_limbs(buf, n, kind); if (!buf[n - 1]) buf[n - 1] = 1 + (rnd64() >> 1);
  if (rnd_below(4) == 0 && n > 1) buf[0] = 0;
  h = hex_of_limbs(buf, n, (int)rnd_below(2)); callf("drv_setf", i, h, (int64_t)((long)rnd_below(9) - 4)); free(h);
}
static int ceil_log2(int b) { int k = 0; while ((1 << k) < b) k++; return k; }

void drv_c13s(int tier, unsigned long seed, const char *extra) {
  shard_t sh = shard_parse(extra); long x = 0; int bi, pi, j;
  static const int bases[] = {10, 2, 16, 3, 7, 36, 62, 37, -10, -16, -2, -36, -62, 8, 11, 5};
  static const int precb[] = {64, 128, 256, 640, 3136};
  int nb = sh.pure ? 2 : (tier ? 16 : 12), np = sh.pure ? 1 : (tier ? 5 : 4);      /* pure (no Java) validation: two small executions */
  char s[4000];
  for (bi = 0; bi < nb; bi++) for (pi = 0; pi < np; pi++) {
    int base = bases[bi], ab = base < 0 ? -base : base, reps = sh.pure ? 3 : (tier ? 40 : 24), lg = ceil_log2(ab);
    x++; if (!MINE(sh, x)) continue;
    rec_reset("c13s", x, seed);
    callf("mpf_init2", 0, (uint64_t)precb[pi]); callf("mpf_init2", 1, (uint64_t)precb[(pi + 1) % np]); callf("mpf_init2", 2, (uint64_t)precb[pi]); callf("mpz_init", 0);
    { long pbits = 64 * (long)PREC(Fp[0]) - 64, maxdig = pbits / lg;
      for (j = 0; j < reps; j++) {
        /* ---- set_str: digits well below, around and well above what the precision holds */
        int cls = j % 6, ni, nf, kind = (int)rnd_below(4), ef = (int)rnd_below(4); long ex;
        long tot = cls == 0 ? 1 + (long)rnd_below(4) : cls == 1 ? 1 + (long)rnd_below(maxdig > 1 ? maxdig : 1) : cls == 2 ? maxdig + (long)rnd_below(5) - 2 : cls == 3 ? maxdig * 2 + (long)rnd_below(9) : cls == 4 ? 1 + (long)rnd_below(30) : 3 * maxdig;
        if (tot < 1) tot = 1; if (tot > 1500) tot = 1500;
        switch (rnd_below(5)) { case 0: ni = (int)tot; nf = -1; break; case 1: ni = 0; nf = (int)tot; break; case 2: ni = (int)tot; nf = 0; break;
          default: ni = 1 + (int)rnd_below(tot); nf = (int)tot - ni; break; }
        ex = ef ? (rnd_below(4) ? (long)rnd_below(41) - 20 : (long)rnd_below(601) - 300) : 0;
        if (ni == 0 && nf == 0) ni = 1;
        gen_str(s, base, ni, nf, kind, ef, ex);
        callf("mpf_set_str", 0, s, base);
        if (j % 5 == 0) { callf("mpf_clear", 2); callf("mpf_init_set_str", 2, s, base); }
        /* ---- get_str of that value and of arithmetic results, every class of digit count */
        { static const int gb[] = {10, 2, 16, -16, 36, 62, 3, 37, -36, 7}; int g = gb[(j + bi) % 10], ga = g < 0 ? -g : g; long cap = pbits / ceil_log2(ga), nd;
          nd = (j % 4 == 0) ? 0 : (j % 4 == 1) ? 1 + (long)rnd_below(3) : (j % 4 == 2) ? cap : 1 + (long)rnd_below(cap);
          if (nd > cap) nd = cap;
          callf("mpf_get_str_n", g, (uint64_t)nd, 0); rec_free_str(last_ret.str);
          if (nd > 0) callf("mpf_get_str_buf", g, (uint64_t)nd, 0);        /* caller buffer of exactly n_digits + 2 bytes */
          setf_any(1, (int)rnd_below(NKINDS)); callf("mpf_set", 0, 1);
          callf("mpf_get_str_n", g, (uint64_t)nd, 0); rec_free_str(last_ret.str);
          if (nd > 0) callf("mpf_get_str_buf", g, (uint64_t)nd, 0);
          /* values that round up into a new digit: b^k - tiny */
          if (j % 6 == 0) { callf("mpf_set_ui", 0, (uint64_t)ga); callf("mpf_pow_ui", 0, 0, (uint64_t)(1 + rnd_below(6))); callf("mpf_set_d", 1, 1e-300); callf("mpf_sub", 0, 0, 1);
            callf("mpf_get_str_n", g, (uint64_t)(1 + rnd_below(cap > 4 ? 4 : cap)), 0); rec_free_str(last_ret.str); callf("mpf_get_str_n", g, (uint64_t)0, 0); rec_free_str(last_ret.str); }
        }
      }
    }
    /* ---- strings the grammar rejects */
    { static const char *bad[] = {"", "-", ".", "-.", "1.2.3", "+5", "1e", "1@", "1@-", "..5", "5-", "@5", "-@", "1.@5x"}; int k;
      for (k = 0; k < 14; k++) { callf("mpf_set_str", 0, bad[k], base); }
      if (ab <= 36) { s[0] = A36L[ab <= 35 ? ab : 35]; s[1] = 0; if (ab <= 35 && !(ab <= 10 && (s[0] == 'e'))) callf("mpf_set_str", 0, s, base); }
      callf("mpf_set_str", 0, "0", base); callf("mpf_set_str", 0, "-0.000", base); callf("mpf_set_str", 0, "0@5", base); }
    /* ---- the remaining float functions */
    for (j = 0; j < (sh.pure ? 1 : 12); j++) {
      setf_any(0, (int)rnd_below(NKINDS)); setf_any(1, (int)rnd_below(NKINDS));
      callf("mpf_pow_ui", 2, 0, (uint64_t)rnd_below(j % 3 ? 12 : 70)); callf("mpf_set", 2, 0); callf("mpf_pow_ui", 2, 2, (uint64_t)(1 + rnd_below(9)));
      callf("mpf_set_ui", 2, (uint64_t)(1 + rnd_below(9))); callf("mpf_pow_ui", 2, 2, (uint64_t)rnd_below(40));           /* exact powers */
      callf("drv_rndz", 0, (int)rnd_below(6), (int)rnd_below(NKINDS), (int)rnd_below(2)); callf("mpf_cmp_z", 0, 0); callf("mpf_set_z", 2, 0); callf("mpf_cmp_z", 2, 0);
      callf("mpz_set_f", 0, 1); callf("mpf_cmp_z", 1, 0); callf("mpf_size", 0); callf("mpf_size", 2);
      callf("mpf_reldiff", 2, 0, 1); callf("mpf_reldiff", 2, 0, 0); callf("mpf_set", 2, 0); callf("mpf_reldiff", 2, 2, 1);
      /* mpf_eq: equal prefixes of chosen length, then a difference just inside / just outside the compared bits */
      { uint64_t nbits = 1 + rnd_below(64 * (uint64_t)PREC(Fp[0]) + 70); callf("mpf_eq", 0, 1, nbits); callf("mpf_eq", 0, 0, nbits);
        callf("mpf_set", 2, 0); callf("mpf_eq", 0, 2, nbits); callf("mpf_neg", 2, 0); callf("mpf_eq", 0, 2, nbits);
        callf("mpf_set_d", 1, 1.0); { uint64_t sh_ = nbits + rnd_below(5); callf("mpf_div_2exp", 1, 1, sh_ > 2 ? sh_ - 2 : (uint64_t)0); } callf("mpf_mul", 1, 1, 0); callf("mpf_add", 2, 0, 1);      /* 0 and 2 differ around bit nbits */
        callf("mpf_eq", 0, 2, nbits); callf("mpf_eq", 2, 0, nbits); callf("mpf_eq", 0, 2, (uint64_t)(nbits > 8 ? nbits - 8 : 1)); callf("mpf_eq", 0, 2, nbits + 8);
        callf("mpf_set_ui", 1, (uint64_t)0); callf("mpf_eq", 1, 1, nbits); callf("mpf_eq", 0, 1, nbits);
        callf("mpf_mul_2exp", 2, 0, (uint64_t)1); callf("mpf_eq", 0, 2, nbits); callf("mpf_mul_2exp", 2, 0, (uint64_t)64); callf("mpf_eq", 0, 2, nbits); }
    }
    callf("mpf_get_default_prec"); callf("mpf_set_default_prec", (uint64_t)(64 + rnd_below(500))); callf("mpf_get_default_prec");
    callf("mpf_inits", 3, 4, 5); callf("mpf_set_ui", 4, (uint64_t)7); callf("mpf_get_prec", 3);
    /* the initialise-and-set forms take the default precision in force: a longer operand is truncated to it */
    callf("mpf_clears", 3, 4, 5); callf("mpf_init", 3); callf("mpf_init_set", 4, 0); callf("mpf_init_set_ui", 5, (uint64_t)rnd64()); callf("mpf_add", 3, 4, 5);
    callf("mpf_clear", 4); callf("mpf_init_set_si", 4, (int64_t)rnd64()); callf("mpf_clear", 5); callf("mpf_init_set_d", 5, -1234.5678e20); callf("mpf_mul", 3, 4, 5);
    callf("gmp_randinit_default", 0); callf("gmp_randseed_ui", 0, (uint64_t)(seed + x));
    for (j = 0; j < 6; j++) { callf("mpf_rrandomb", 3 + j % 3, 0, (int64_t)((long)rnd_below(15) - 7), (int64_t)rnd_below(20)); callf("mpf_get_d", 3 + j % 3); }
    callf("mpf_rrandomb", 3, 0, (int64_t)0, (int64_t)3); callf("mpf_rrandomb", 4, 0, (int64_t)-200, (int64_t)0);
    callf("gmp_randclear", 0);
    callf("mpf_clears", 3, 4, 5); callf("mpf_set_default_prec", (uint64_t)64);
    for (j = 0; j < 3; j++) callf("mpf_clear", j); callf("mpz_clear", 0);
    rec_quiesce();
  }
}
