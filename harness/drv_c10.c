/* C10: bitwise functions.  mpz: all sign combinations, negatives with low zero limbs, -1, -2^k, length differences,
   bit indices below / at / far above the length, aliasing; mpn: logical kernels for every n mod 8, popcount, hamdist, scans */
#include "util.h"
static void shrinkz(int i) { callf("mpz_realloc2", i, (uint64_t)(ABSIZ(Zp[i]) ? (uint64_t)ABSIZ(Zp[i]) * 64 : 1)); }

/* special operand shapes: kind 0..NKINDS-1 random kinds; 100: -1 / 1; 101: +-2^k; 102: low limbs zero; 103: all ones (2^k - 1) */
static void setshape(int i, int limbs, int shape, int neg) {
  char buf[64];
  if (shape < 100) { callf("drv_rndz", i, limbs, shape, neg); return; }
  if (shape == 100) { callf("drv_setz", i, neg ? "-1" : "1"); return; }
  if (shape == 101) { callf("drv_setz", i, neg ? "-1" : "1"); callf("mpz_mul_2exp", i, i, (uint64_t)(limbs > 0 ? limbs * 64 - 1 - (int)rnd_below(3) : 0)); return; }
  if (shape == 102) { int z = 1 + (int)rnd_below(limbs > 1 ? limbs - 1 : 1); callf("drv_rndz", i, limbs > z ? limbs - z : 1, 0, neg); callf("mpz_mul_2exp", i, i, (uint64_t)(64 * z)); return; }
  callf("drv_rndz", i, limbs, 1, neg);
}
void drv_c10_mpz(int tier, unsigned long seed, const char *extra) {
  shard_t sh = shard_parse(extra); long x = 0; int la, lb, sa, sb, s1, s2, j;
  static const int shapes[] = {0, 3, 5, 100, 101, 102, 103};
  static const int ls_q[] = {0, 1, 2, 3, 5, 9, 17}, ls_p[] = {0, 1, 2, 3};
  const int *ls = sh.pure ? ls_p : ls_q; int nl = sh.pure ? 4 : (tier ? 7 : 6);
  for (la = 0; la < nl; la++) for (lb = 0; lb < nl; lb++) for (s1 = 0; s1 < 7; s1++) {
    x++; if (!MINE(sh, x)) continue;
    if (sh.pure && (s1 > 4 || x % 6)) continue;
    rec_reset("c10_mpz", x, seed);
    for (j = 0; j < 4; j++) callf("mpz_init", j);
    for (sa = 0; sa < 2; sa++) for (sb = 0; sb < 2; sb++) {
      s2 = shapes[(s1 + sa + 2 * sb + (int)rnd_below(7)) % 7];
      setshape(0, ls[la], shapes[s1], sa); setshape(1, ls[lb], s2, sb);
      shrinkz(2); callf("mpz_and", 2, 0, 1); shrinkz(2); callf("mpz_ior", 2, 0, 1); shrinkz(2); callf("mpz_xor", 2, 0, 1);
      shrinkz(2); callf("mpz_com", 2, 0); callf("mpz_hamdist", 0, 1); callf("mpz_popcount", 0);
      /* aliased */
      callf("mpz_set", 2, 0); shrinkz(2); callf("mpz_and", 2, 2, 1); callf("mpz_set", 2, 1); shrinkz(2); callf("mpz_and", 2, 0, 2);
      callf("mpz_set", 2, 0); shrinkz(2); callf("mpz_ior", 2, 2, 1); callf("mpz_set", 2, 1); shrinkz(2); callf("mpz_ior", 2, 0, 2);
      callf("mpz_set", 2, 0); shrinkz(2); callf("mpz_xor", 2, 2, 1); callf("mpz_set", 2, 1); shrinkz(2); callf("mpz_xor", 2, 0, 2);
      callf("mpz_set", 2, 0); callf("mpz_and", 2, 2, 2); callf("mpz_ior", 2, 2, 2); callf("mpz_xor", 2, 2, 2); callf("mpz_set", 2, 0); callf("mpz_com", 2, 2);
      /* bit indices: below, at limb boundaries, at and far above the length */
      { uint64_t idx[12]; int ni = 0; uint64_t len = (uint64_t)ls[la] * 64;
        idx[ni++] = 0; idx[ni++] = 1; idx[ni++] = 63; idx[ni++] = 64; idx[ni++] = len ? len - 1 : 0; idx[ni++] = len; idx[ni++] = len + 1; idx[ni++] = len + 64; idx[ni++] = len + 200;
        idx[ni++] = rnd_below(len + 2); idx[ni++] = rnd_below(len + 70);
        for (j = 0; j < ni; j++) {
          callf("mpz_tstbit", 0, idx[j]); callf("mpz_scan0", 0, idx[j]); callf("mpz_scan1", 0, idx[j]);
          callf("mpz_set", 3, 0); shrinkz(3); callf("mpz_setbit", 3, idx[j]);
          callf("mpz_set", 3, 0); shrinkz(3); callf("mpz_clrbit", 3, idx[j]);
          callf("mpz_set", 3, 0); shrinkz(3); callf("mpz_combit", 3, idx[j]); callf("mpz_combit", 3, idx[j]);
        } }
    }
    for (j = 0; j < 4; j++) callf("mpz_clear", j);
    rec_quiesce();
  }
}

void drv_c10_mpn(int tier, unsigned long seed, const char *extra) {
  shard_t sh = shard_parse(extra); long x = 0; mp_size_t n; int kind, f, place;
  static const char *names[] = {"mpn_and_n", "mpn_andn_n", "mpn_nand_n", "mpn_ior_n", "mpn_iorn_n", "mpn_nior_n", "mpn_xor_n", "mpn_xnor_n"};
  mp_size_t maxn = sh.pure ? 4 : (tier ? 80 : 40);
  for (n = 1; n <= maxn; n++) for (kind = 0; kind < (sh.pure ? 2 : NKINDS); kind++) {
    x++; if (!MINE(sh, x)) continue;
    rec_reset("c10_mpn", x, seed);
    for (place = 0; place < 2; place++) {
      mp_ptr a = gb_get(0, n, place), b = gb_get(1, n, place), r = gb_get(2, n, place);
      rnd_limbs(a, n, kind); rnd_limbs(b, n, (kind + 2) % NKINDS);
      for (f = 0; f < 8; f++) {
        int inplace = (f + place) % 3;      /* 0 separate, 1 rp == ap, 2 rp == bp */
        mp_ptr dst = inplace == 0 ? r : gb_get(3, n, place), s1 = a, s2 = b;
        if (inplace == 1) { MPN_COPY(dst, a, n); s1 = dst; } else if (inplace == 2) { MPN_COPY(dst, b, n); s2 = dst; } else gb_fill(r, n);
        fn_begin(names[f]); fn_in_limbs("a", s1, n); fn_in_limbs("b", s2, n); fn_in_int("n", n); fn_mid();
        switch (f) { case 0: mpn_and_n(dst, s1, s2, n); break; case 1: mpn_andn_n(dst, s1, s2, n); break; case 2: mpn_nand_n(dst, s1, s2, n); break; case 3: mpn_ior_n(dst, s1, s2, n); break;
          case 4: mpn_iorn_n(dst, s1, s2, n); break; case 5: mpn_nior_n(dst, s1, s2, n); break; case 6: mpn_xor_n(dst, s1, s2, n); break; default: mpn_xnor_n(dst, s1, s2, n); }
        fn_out_limbs("r", dst, n); fn_end();
      }
      fn_begin("mpn_com_n"); fn_in_limbs("a", a, n); fn_in_int("n", n); fn_mid(); gb_fill(r, n); mpn_com_n(r, a, n); fn_out_limbs("r", r, n); fn_end();
      fn_begin("mpn_popcount"); fn_in_limbs("a", a, n); fn_in_int("n", n); fn_mid(); fn_out_u64("ret", mpn_popcount(a, n)); fn_end();
      fn_begin("mpn_hamdist"); fn_in_limbs("a", a, n); fn_in_limbs("b", b, n); fn_in_int("n", n); fn_mid(); fn_out_u64("ret", mpn_hamdist(a, b, n)); fn_end();
      /* extremes of the per-block counters: complementary operands (every bit differs), complementary but for one bit, equal operands, all ones */
      { mp_ptr c = gb_get(3, n, place); int v; for (v = 0; v < 4; v++) { mp_size_t i; for (i = 0; i < n; i++) c[i] = v == 2 ? a[i] : ~a[i];
          if (v == 1) c[rnd_below(n)] ^= (mp_limb_t)1 << rnd_below(64); if (v == 3) for (i = 0; i < n; i++) c[i] = ~(mp_limb_t)0;
          fn_begin("mpn_hamdist"); fn_in_limbs("a", a, n); fn_in_limbs("b", c, n); fn_in_int("n", n); fn_mid(); fn_out_u64("ret", mpn_hamdist(a, c, n)); fn_end();
          if (v == 3) { fn_begin("mpn_popcount"); fn_in_limbs("a", c, n); fn_in_int("n", n); fn_mid(); fn_out_u64("ret", mpn_popcount(c, n)); fn_end(); } } }
      { /* scans: a bit of the wanted kind must exist at or above the start (documented precondition) */
        mp_size_t start = rnd_below(n * 64); mp_ptr c = gb_get(3, n, place); MPN_COPY(c, a, n);
        c[n - 1] |= (mp_limb_t)1 << 63;
        fn_begin("mpn_scan1"); fn_in_limbs("a", c, n); fn_in_int("n", n); fn_in_int("start", start); fn_mid(); fn_out_u64("ret", mpn_scan1(c, start)); fn_end();
        c[n - 1] &= ~((mp_limb_t)1 << 63);
        fn_begin("mpn_scan0"); fn_in_limbs("a", c, n); fn_in_int("n", n); fn_in_int("start", start); fn_mid(); fn_out_u64("ret", mpn_scan0(c, start)); fn_end(); }
    }
  }
}
