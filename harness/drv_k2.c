/* K2: the internal division-side mpn kernels called DIRECTLY, one "fn" event per call, decided by spec/SemK2.tla.
   k2_sbdc: schoolbook and divide-and-conquer quotient / approximate quotient / quotient+remainder kernels, divrem_2, divexact.
   k2_inv:  the kernels working with a precomputed mpn_invert inverse.
   k2_bdiv: Hensel (2-adic) division kernels and mpn_bdivmod.
   k2_div1: single-limb divisor kernels (mod_1_k, preinv, exact-by-constant, modexact, Hensel and Euclidean by a limb), mpn_divisible_p.
   Every operand, result and scratch area is a guarded buffer of exactly the size the routine's source states. */
#include "util.h"
#define B63 ((mp_limb_t)1 << 63)
#define ONES (~(mp_limb_t)0)
#define NDK 7
/* normalised divisor of dn limbs */
static void mk_divisor(mp_ptr d, mp_size_t dn, int dk) {
  switch (dk % NDK) {
  case 0: rnd_limbs(d, dn, 0); break;
  case 1: rnd_limbs(d, dn, 1); break;                                                      /* B^dn - 1 */
  case 2: MPN_ZERO(d, dn); if (dn > 1 && (rnd64() & 1)) d[0] = 1; break;                   /* B^dn / 2 (+1) */
  case 3: rnd_limbs(d, dn, 0); d[dn - 1] = 0; if (dn > 1 && (rnd64() & 1)) d[dn - 2] = 0; break;   /* d1 = B/2 */
  case 4: rnd_limbs(d, dn, 3); break;
  case 5: rnd_limbs(d, dn, 5); break;
  default: rnd_limbs(d, dn, 0); d[dn - 1] = ONES; if (dn > 1) d[dn - 2] = (rnd64() & 1) ? ONES : ONES - 1; if (dn > 2 && (rnd64() & 1)) d[dn - 3] = ONES; break;
  }
  d[dn - 1] |= B63;
}
#define NHOW 9
/* dividend of nn >= dn limbs for the divisor {d,dn}.  how: 0 random, 1 quotient all ones & remainder d-1, 2 top limbs equal to the divisor's,
   3 n = d*B^k - 1, 4 corner limbs, 5 quotient of B-1 limbs & remainder 0, 6 top dn limbs = d (qh = 1) over a random tail, 7 all ones, 8 n = d*B^k exactly */
static void mk_dividend(mp_ptr n, mp_size_t nn, mp_srcptr d, mp_size_t dn, int how) {
  mp_size_t qn = nn - dn + 1, i; mp_ptr q, t;
  switch (how % NHOW) {
  case 0: rnd_limbs(n, nn, 0); break;
  case 4: rnd_limbs(n, nn, 5); break;
  case 7: rnd_limbs(n, nn, 1); break;
  case 2: rnd_limbs(n, nn, 0); for (i = 0; i < dn && i < nn; i++) if (i < 3 || (rnd64() & 3)) n[nn - 1 - i] = d[dn - 1 - i]; else break; break;
  case 3: MPN_ZERO(n, nn); if (nn > dn) { MPN_COPY(n + nn - dn - 1, d, dn); mpn_sub_1(n, n, nn, 1); } else { MPN_COPY(n, d, dn); mpn_sub_1(n, n, nn, 1); } break;
  case 6: rnd_limbs(n, nn, (int)rnd_below(NKINDS)); MPN_COPY(n + nn - dn, d, dn); break;
  case 8: MPN_ZERO(n, nn); MPN_COPY(n + nn - dn - (nn > dn ? (mp_size_t)rnd_below(2) : 0), d, dn); break;
  default: /* inverse construction: n = q*d + r, q chosen so that the product fits */
    q = gb_get(8, qn, 1); t = gb_get(9, qn + dn, 1);
    rnd_limbs(q, qn, how % NHOW == 1 ? 1 : 5); q[qn - 1] = 0;
    if (qn >= dn) mpn_mul(t, q, qn, d, dn); else mpn_mul(t, d, dn, q, qn);
    MPN_COPY(n, t, nn);
    if (how % NHOW == 1) { mp_ptr r = gb_get(7, dn, 1); mpn_sub_1(r, d, dn, 1); mpn_add(n, n, nn, r, dn); }
  }
}
#define IN_ND() do { fn_in_limbs("n", n, nn); fn_in_int("nn", nn); fn_in_limbs("d", d, dn); fn_in_int("dn", dn); fn_mid(); } while (0)

/* all kernels applicable to the shape (nn, dn) on one operand pair */
static void sbdc_case(mp_size_t nn, mp_size_t dn, int how, int dk, int place) {
  mp_size_t qn = nn - dn;
  mp_ptr n = gb_get(0, nn, place), d = gb_get(1, dn, place), q = gb_get(2, qn, place), w = gb_get(3, nn, place); mp_limb_t dinv, qh;
  mk_divisor(d, dn, dk); mk_dividend(n, nn, d, dn, how); mpir_invert_pi1(dinv, d[dn - 1], d[dn - 2]);
  if (dn > 2) {
    MPN_COPY(w, n, nn); fn_begin("mpn_sb_div_q"); IN_ND(); gb_fill(q, qn); qh = mpn_sb_div_q(q, w, nn, d, dn, dinv); fn_out_limbs("q", q, qn); fn_out_u64("qh", qh); fn_end();
    if (qn > 0) { MPN_COPY(w, n, nn); fn_begin("mpn_sb_divappr_q"); IN_ND(); gb_fill(q, qn); qh = mpn_sb_divappr_q(q, w, nn, d, dn, dinv); fn_out_limbs("q", q, qn); fn_out_u64("qh", qh); fn_end(); }
  }
  if (dn >= 6 && qn >= 3) {
    MPN_COPY(w, n, nn); fn_begin("mpn_dc_div_qr"); IN_ND(); gb_fill(q, qn); qh = mpn_dc_div_qr(q, w, nn, d, dn, dinv); fn_out_limbs("q", q, qn); fn_out_u64("qh", qh); fn_out_limbs("r", w, dn); fn_end();
    MPN_COPY(w, n, nn); fn_begin("mpn_dc_div_q"); IN_ND(); gb_fill(q, qn); qh = mpn_dc_div_q(q, w, nn, d, dn, dinv); fn_out_limbs("q", q, qn); fn_out_u64("qh", qh); fn_end();
    MPN_COPY(w, n, nn); fn_begin("mpn_dc_divappr_q"); IN_ND(); gb_fill(q, qn); qh = mpn_dc_divappr_q(q, w, nn, d, dn, dinv); fn_out_limbs("q", q, qn); fn_out_u64("qh", qh); fn_end();
  }
  if (dn >= 6 && qn == dn) {     /* 2n by n; scratch as every caller in the library sizes it */
    mp_ptr tp = gb_get(4, DC_DIVAPPR_Q_N_ITCH(dn), place);
    MPN_COPY(w, n, nn); fn_begin("mpn_dc_div_qr_n"); IN_ND(); gb_fill(q, qn); gb_fill(tp, DC_DIVAPPR_Q_N_ITCH(dn)); qh = mpn_dc_div_qr_n(q, w, d, dn, dinv, tp);
    fn_out_limbs("q", q, qn); fn_out_u64("qh", qh); fn_out_limbs("r", w, dn); fn_end();
  }
}
static int k2_sizes(int *out, int tier, int pure, int lo) {
  const int thr[] = {DC_DIVAPPR_Q_THRESHOLD, 43 /* SB_DIVAPPR_Q_CUTOFF */, DC_DIV_QR_THRESHOLD, DC_BDIV_QR_THRESHOLD, DC_DIV_Q_THRESHOLD, 2 * 43, 2 * DC_DIV_QR_THRESHOLD, 2 * DC_BDIV_QR_THRESHOLD};
  int c = 0, i;
  if (pure) { out[c++] = lo; out[c++] = lo + 1; return c; }
  for (i = lo; i <= (tier ? 40 : 24); i++) out[c++] = i;
  c += sizes_around(out + c, 60, thr, 8, out[c - 1] + 1, 220);
  if (tier) { out[c++] = 150; out[c++] = 301; }
  return c;
}
void drv_k2_sbdc(int tier, unsigned long seed, const char *extra) {
  shard_t sh = shard_parse(extra); long x = 0; int i, j, t, dns[120], nd = k2_sizes(dns, tier, sh.pure, 3);
  for (i = 0; i < nd; i++) {
    int dn = dns[i], qs[14], nq = 0, reps = sh.pure ? 2 : (tier ? NHOW : 3);
    qs[nq++] = 0; qs[nq++] = 1; qs[nq++] = 3;
    if (!sh.pure) { qs[nq++] = 2; qs[nq++] = dn / 2 + 1; qs[nq++] = dn - 2; qs[nq++] = dn - 1; qs[nq++] = dn; qs[nq++] = dn + 1; qs[nq++] = 2 * dn; qs[nq++] = 2 * dn + 1; if (dn < 60) qs[nq++] = 5 * dn + 3; else qs[nq++] = dn + 44; }
    for (j = 0; j < nq; j++) {
      x++; if (!MINE(sh, x)) continue;
      rec_reset("k2_sbdc", x, seed);
      for (t = 0; t < reps; t++) sbdc_case(dn + qs[j], dn, (int)((x + 4 * t) % NHOW), (int)((x / 3 + 3 * t) % NDK), t & 1);
    }
  }
  /* mpn_divrem_2: normalised two-limb divisor, with and without fraction limbs; the quotient may also sit right above the remainder (qp = np + 2) */
  for (i = 2; i <= (sh.pure ? 3 : (tier ? 60 : 34)); i++) {
    x++; if (!MINE(sh, x)) continue;
    rec_reset("k2_sbdc", x, seed);
    for (t = 0; t < (sh.pure ? 2 : NDK); t++) for (j = 0; j < 3; j++) {
      mp_size_t nn = i, dn = 2, qxn = j == 1 ? 1 + (mp_size_t)rnd_below(3) : 0; mp_limb_t qh;
      mp_ptr n = gb_get(0, nn, t & 1), d = gb_get(1, 2, t & 1), w = gb_get(3, nn, t & 1), q = gb_get(2, nn - 2 + qxn, t & 1);
      mk_divisor(d, 2, t); mk_dividend(n, nn, d, 2, (int)((x + t + 3 * j) % NHOW)); MPN_COPY(w, n, nn);
      fn_begin("mpn_divrem_2"); fn_in_limbs("n", n, nn); fn_in_int("nn", nn); fn_in_limbs("d", d, dn); fn_in_int("qxn", qxn); fn_in_int("ov", j == 2); fn_mid();
      if (j == 2) { q = w + 2; qh = mpn_divrem_2(q, 0, w, nn, d); }          /* documented overlap: QP + 2 >= NP */
      else { gb_fill(q, nn - 2 + qxn); qh = mpn_divrem_2(q, qxn, w, nn, d); }
      fn_out_limbs("q", q, nn - 2 + qxn); fn_out_u64("qh", qh); fn_out_limbs("r", w, 2); fn_end();
    }
  }
  /* mpn_divexact: n = q*d built by multiplication; any divisor (even, low zero limbs, unnormalised), sizes on both sides of its internal choices */
  for (i = 0; i < nd + 1; i++) {
    int dn = i < nd ? dns[i] - 2 : 7, qs[6], nq = 0;     /* dn from 1 */
    if (i == nd && (sh.pure || !tier)) continue;
    qs[nq++] = 1; qs[nq++] = 2; if (!sh.pure) { qs[nq++] = dn / 2 + 1; qs[nq++] = dn; qs[nq++] = dn + 2; qs[nq++] = 2 * dn + 3; }
    if (i == nd) { nq = 0; qs[nq++] = INV_DIV_QR_THRESHOLD + 1; }           /* the mpn_inv_divappr_q branch: qn or dn above INV_DIV_QR_THRESHOLD */
    for (j = 0; j < nq; j++) {
      x++; if (!MINE(sh, x)) continue;
      rec_reset("k2_sbdc", x, seed);
      for (t = 0; t < (sh.pure ? 2 : 4); t++) {
        mp_size_t qn = qs[j], nn = dn + qn, z = (t == 3 && dn > 2) ? 1 + (mp_size_t)rnd_below(dn - 1) : 0, qn1;
        mp_ptr d = gb_get(1, dn, t & 1), qq = gb_get(4, qn, 1), pr = gb_get(3, nn, 1), n, q;
        rnd_limbs(d, dn, (int)((x + t) % NKINDS)); if (t == 1) d[0] |= 1; if (t == 2) d[0] &= ~(mp_limb_t)0xfff; if (z) MPN_ZERO(d, z);
        if (!d[dn - 1]) d[dn - 1] = 1 + (rnd64() >> (1 + rnd_below(63)));
        if (t == 0) d[dn - 1] |= B63;
        rnd_limbs(qq, qn, (int)((x / 2 + t) % NKINDS)); if (!qq[qn - 1]) qq[qn - 1] = 1;
        if (qn >= dn) mpn_mul(pr, qq, qn, d, dn); else mpn_mul(pr, d, dn, qq, qn);
        if (!pr[nn - 1]) nn--;                              /* nn >= dn still holds: the product has dn+qn or dn+qn-1 limbs */
        n = gb_get(0, nn, t & 1); MPN_COPY(n, pr, nn); qn1 = nn - dn + 1; q = gb_get(2, qn1, t & 1);
        fn_begin("mpn_divexact"); IN_ND(); gb_fill(q, qn1); mpn_divexact(q, n, nn, d, dn); fn_out_limbs("q", q, qn1); fn_end();
      }
    }
  }
}
/* k2_dive2: mpn_divexact decides from the 2-adic shape of its operands (common low zero limbs stripped, trailing zero count of the divisor's lowest non-zero limb,
   parity of the quotient for the approximate-quotient arm): every combination of {lowest non-zero divisor limb: 1, 2, odd, 2^62, 2^63, ...f000, all ones} x
   {quotient odd, even, low limb zero, low two limbs zero} x {stripped zero limbs 0, 1, 2} in BOTH arms (bdiv below, mpn_invert + mpn_inv_divappr_q at or above
   INV_DIV_QR_THRESHOLD in qn or dn) and in every (long q, short d) / (short q, long d) shape.  Also through mpz_divexact-style callers via the same kernel. */
void drv_k2_dive2(int tier, unsigned long seed, const char *extra) {
  shard_t sh = shard_parse(extra); long x = 0; int si, li, qi, zi;
  static const mp_limb_t LOW[] = {1, 2, 0x6b8b4567327b23c7UL, (mp_limb_t)1 << 62, (mp_limb_t)1 << 63, ~(mp_limb_t)0xfff, ~(mp_limb_t)0, (mp_limb_t)3 << 62};
  const mp_size_t T = INV_DIV_QR_THRESHOLD;
  struct { mp_size_t dn, qn; int thorough; } shp[] = { {1, 3, 0}, {2, 2, 0}, {3, 5, 0}, {7, 7, 0}, {9, 30, 0}, {30, 9, 0}, {40, 70, 0}, {10, T + 3, 0}, {T + 3, 40, 0}, {7, T + 1, 1}, {6, T + 1, 1}, {T, 1, 1}, {T + 2, T + 2, 1}, {12, T + 200, 1} };
  for (si = 0; si < (int)(sizeof shp / sizeof shp[0]); si++) {
    if (shp[si].thorough && !tier) continue;
    if (sh.pure && si > 3) continue;
    for (li = 0; li < 8; li++) {
      x++; if (!MINE(sh, x)) continue;
      rec_reset("k2_dive2", x, seed);
      for (qi = 0; qi < 4; qi++) for (zi = 0; zi < 3; zi++) {
        mp_size_t dn0 = shp[si].dn, qn = shp[si].qn, dn = dn0 + zi, nn = dn + qn, qn1;
        mp_ptr d = gb_get(1, dn, (qi + zi) & 1), qq = gb_get(4, qn, 1), pr = gb_get(3, nn, 1), n, q;
        if (qi == 3 && qn < 3) continue;
        if (dn0 > 1000 && qn > 1000 && (qi + zi + li) % 3) continue;
        rnd_limbs(d, dn, (int)((x + qi) % NKINDS)); MPN_ZERO(d, zi); d[zi] = LOW[li];
        if (!d[dn - 1]) d[dn - 1] = 1 + (rnd64() >> (1 + rnd_below(63)));
        if (dn0 == 1) d[dn - 1] = LOW[li];
        rnd_limbs(qq, qn, (int)((x / 2 + zi) % NKINDS)); if (!qq[qn - 1]) qq[qn - 1] = 1;
        if (qi == 0) qq[0] |= 1; else if (qi == 1) { qq[0] &= ~(mp_limb_t)1; if (!qq[0]) qq[0] = 2; } else if (qi == 2) { if (qn > 1) qq[0] = 0; else qq[0] &= ~(mp_limb_t)1; } else { qq[0] = qq[1] = 0; }
        if (!qq[qn - 1]) qq[qn - 1] = 2;
        if (qn >= dn) mpn_mul(pr, qq, qn, d, dn); else mpn_mul(pr, d, dn, qq, qn);
        if (!pr[nn - 1]) nn--;
        n = gb_get(0, nn, qi & 1); MPN_COPY(n, pr, nn); qn1 = nn - dn + 1; q = gb_get(2, qn1, zi & 1);
        fn_begin("mpn_divexact"); IN_ND(); gb_fill(q, qn1); mpn_divexact(q, n, nn, d, dn); fn_out_limbs("q", q, qn1); fn_end();
      }
    }
  }
}

/* mpn_sb_divappr_q on its asserted boundary nn = dn (ASSERT (nn >= dn); tests/mpn/t-sb_divappr_q.c draws nn = dn too): the quotient area
   {qp, nn-dn} is empty.  The limb following it is poisoned and logged as "past": it must come back untouched.  (Kept apart from k2_sbdc
   because the unmodified library stores a quotient limb at qp[0] here; with an end-guarded quotient buffer the call faults.) */
void drv_k2_appr0(int tier, unsigned long seed, const char *extra) {
  shard_t sh = shard_parse(extra); long x = 0; mp_size_t dn; int t;
  for (dn = 3; dn <= (sh.pure ? 4 : (tier ? 30 : 12)); dn++) {
    x++; if (!MINE(sh, x)) continue;
    rec_reset("k2_appr0", x, seed);
    for (t = 0; t < (sh.pure ? 2 : NHOW); t++) {
      mp_size_t nn = dn; mp_ptr n = gb_get(0, nn, t & 1), d = gb_get(1, dn, t & 1), q = gb_get(2, 1, 0), w = gb_get(3, nn, t & 1); mp_limb_t dinv, qh;
      mk_divisor(d, dn, (int)(x + t)); mk_dividend(n, nn, d, dn, t); mpir_invert_pi1(dinv, d[dn - 1], d[dn - 2]); MPN_COPY(w, n, nn);
      fn_begin("mpn_sb_divappr_q"); IN_ND(); gb_fill(q, 1); qh = mpn_sb_divappr_q(q, w, nn, d, dn, dinv); fn_out_limbs("q", q, 0); fn_out_u64("qh", qh); fn_out_u64("past", q[0]); fn_end();
    }
  }
}

/* ---- kernels taking the mpn_invert inverse of the whole divisor ---- */
static void inv_case(mp_size_t nn, mp_size_t dn, int how, int dk, int place) {
  mp_size_t qn = nn - dn;
  mp_ptr n = gb_get(0, nn, place), d = gb_get(1, dn, place), q = gb_get(2, qn, place), w = gb_get(3, nn, place), inv = gb_get(5, dn, place); mp_limb_t qh;
  mk_divisor(d, dn, dk); mk_dividend(n, nn, d, dn, how);
  fn_begin("mpn_invert"); fn_in_limbs("a", d, dn); fn_in_int("n", dn); fn_mid(); gb_fill(inv, dn); mpn_invert(inv, d, dn); fn_out_limbs("r", inv, dn); fn_end();      /* same event format as k1_inv: decided by SemK1 */
  if (dn >= 6 && qn >= 3) {
    MPN_COPY(w, n, nn); fn_begin("mpn_inv_div_qr"); IN_ND(); gb_fill(q, qn); qh = mpn_inv_div_qr(q, w, nn, d, dn, inv); fn_out_limbs("q", q, qn); fn_out_u64("qh", qh); fn_out_limbs("r", w, dn); fn_end();
    MPN_COPY(w, n, nn); fn_begin("mpn_inv_div_q"); IN_ND(); gb_fill(q, qn); qh = mpn_inv_div_q(q, w, nn, d, dn, inv); fn_out_limbs("q", q, qn); fn_out_u64("qh", qh); fn_end();
  }
  if (dn >= 6 && qn >= 1) {
    /* for qn >= dn - 1 the unmodified library may read the limb BELOW {np,nn} (see k2_invlow): here that limb exists (poisoned), so that the values can be checked */
    mp_ptr w1 = qn >= dn - 1 ? gb_get(6, nn + 1, place) + 1 : w; if (qn >= dn - 1) w1[-1] = 0x5a5a5a5a5a5a5a5aUL;
    MPN_COPY(w1, n, nn); fn_begin("mpn_inv_divappr_q"); IN_ND(); gb_fill(q, qn); qh = mpn_inv_divappr_q(q, w1, nn, d, dn, inv); fn_out_limbs("q", q, qn); fn_out_u64("qh", qh); fn_end();
  }
  if (qn == dn) {
    MPN_COPY(w, n, nn); fn_begin("mpn_inv_div_qr_n"); IN_ND(); gb_fill(q, qn); qh = mpn_inv_div_qr_n(q, w, d, dn, inv); fn_out_limbs("q", q, qn); fn_out_u64("qh", qh); fn_out_limbs("r", w, dn); fn_end();
    MPN_COPY(w, n, nn); fn_begin("mpn_inv_divappr_q_n"); IN_ND(); gb_fill(q, qn); qh = mpn_inv_divappr_q_n(q, w, d, dn, inv); fn_out_limbs("q", q, qn); fn_out_u64("qh", qh); fn_end();
  }
}
void drv_k2_inv(int tier, unsigned long seed, const char *extra) {
  shard_t sh = shard_parse(extra); long x = 0; int i, j, t, dns[120], nd = 0;
  const int thr[] = {DC_DIVAPPR_Q_THRESHOLD, INV_DIVAPPR_Q_N_THRESHOLD, DC_DIV_QR_THRESHOLD, MPN_FFT_MUL_N_MINSIZE, 2 * INV_DIVAPPR_Q_N_THRESHOLD, FFT_MULMOD_2EXPP1_CUTOFF};
  if (sh.pure) { dns[nd++] = 2; dns[nd++] = 6; }
  else { for (i = 2; i <= (tier ? 40 : 24); i++) dns[nd++] = i; nd += sizes_around(dns + nd, 40, thr, 6, dns[nd - 1] + 1, 300);
         if (tier) { dns[nd++] = 200; dns[nd++] = 401; dns[nd++] = INV_DIV_QR_THRESHOLD - 1; } dns[nd++] = INV_DIV_QR_THRESHOLD + 1; }
  for (i = 0; i < nd; i++) {
    int dn = dns[i], qs[16], nq = 0, reps = sh.pure ? 2 : (tier ? NHOW : 3), big = dn > 1000;
    if (dn < 6) qs[nq++] = dn;                      /* only the 2n-by-n forms have no lower size limit in their source */
    else if (sh.pure || big) { qs[nq++] = 3; qs[nq++] = dn; if (big) qs[nq++] = dn + 2; }
    else { qs[nq++] = 1; qs[nq++] = 2; qs[nq++] = 3; qs[nq++] = dn / 2 + 1; qs[nq++] = dn - 1; qs[nq++] = dn; qs[nq++] = dn + 1; qs[nq++] = 2 * dn; qs[nq++] = 2 * dn + 1; qs[nq++] = dn < 60 ? 5 * dn + 3 : dn + 51;
           if (dn > DC_DIVAPPR_Q_THRESHOLD + 2) { qs[nq++] = DC_DIVAPPR_Q_THRESHOLD - 1; qs[nq++] = DC_DIVAPPR_Q_THRESHOLD + 1; }
           if (dn > INV_DIVAPPR_Q_N_THRESHOLD + 2) { qs[nq++] = INV_DIVAPPR_Q_N_THRESHOLD - 1; qs[nq++] = INV_DIVAPPR_Q_N_THRESHOLD + 1; } }
    for (j = 0; j < nq; j++) {
      x++; if (!MINE(sh, x)) continue;
      rec_reset("k2_inv", x, seed);
      for (t = 0; t < (big ? 2 : reps); t++) inv_case(dn + qs[j], dn, (int)((x + 4 * t) % NHOW), (int)((x / 3 + 3 * t) % NDK), t & 1);
    }
  }
}
/* mpn_inv_divappr_q with qn >= dn - 1 on a dividend whose first limb is the first accessible limb of its buffer, operands that make
   mpn_inv_divappr_q_n take its "multiply out to get accurate quotient" path (divisor and dividend of all-one limbs).  Kept apart from k2_inv because
   the unmodified library reads np[-1] there (the final block develops a guard limb from a dividend limb that does not exist) and the call faults. */
void drv_k2_invlow(int tier, unsigned long seed, const char *extra) {
  shard_t sh = shard_parse(extra); long x = 0; mp_size_t dn;
  for (dn = 6; dn <= (sh.pure ? 6 : (tier ? 76 : 56)); dn += 10) {      /* qn = dn - 1 needs qn >= INV_DIVAPPR_Q_N_THRESHOLD to reach mpn_inv_divappr_q_n */
    mp_size_t qn = dn > INV_DIVAPPR_Q_N_THRESHOLD ? dn - 1 : 2 * dn, nn = dn + qn; mp_ptr n = gb_get(0, nn, 1), d = gb_get(1, dn, 1), q = gb_get(2, qn, 1), w = gb_get(3, nn, 0), inv = gb_get(5, dn, 1); mp_limb_t qh;
    x++; if (!MINE(sh, x)) continue;
    rec_reset("k2_invlow", x, seed);
    mk_divisor(d, dn, 1); mk_dividend(n, nn, d, dn, 1); mpn_invert(inv, d, dn); MPN_COPY(w, n, nn);
    fn_begin("mpn_inv_divappr_q"); IN_ND(); gb_fill(q, qn); qh = mpn_inv_divappr_q(q, w, nn, d, dn, inv); fn_out_limbs("q", q, qn); fn_out_u64("qh", qh); fn_end();
  }
}

/* ---- Hensel (2-adic) division: odd divisor, dinv = 1/d mod B ---- */
static void mk_odd(mp_ptr d, mp_size_t dn, int dk) {
  switch (dk % NDK) {
  case 0: rnd_limbs(d, dn, 0); break;
  case 1: rnd_limbs(d, dn, 1); break;                                       /* B^dn - 1 */
  case 2: MPN_ZERO(d, dn); break;                                           /* 1 */
  case 3: MPN_ZERO(d, dn); d[dn - 1] = B63; break;                          /* B^dn/2 + 1 */
  case 4: rnd_limbs(d, dn, 3); break;
  case 5: rnd_limbs(d, dn, 5); break;
  default: rnd_limbs(d, dn, 4); d[0] = ONES; break;
  }
  d[0] |= 1;
}
/* dividend for Hensel division.  how: 0 random, 1 all ones, 2 an exact multiple q*d (zero remainder, no borrow), 3 zero, 4 corner limbs, 5 low limbs zero, 6 runs, 7 d itself at the bottom */
static void mk_bnum(mp_ptr n, mp_size_t nn, mp_srcptr d, mp_size_t dn, int how) {
  mp_size_t qn = nn - dn; mp_ptr q, t;
  switch (how % 8) {
  case 0: rnd_limbs(n, nn, 0); break;
  case 1: rnd_limbs(n, nn, 1); break;
  case 3: MPN_ZERO(n, nn); break;
  case 4: rnd_limbs(n, nn, 5); break;
  case 5: rnd_limbs(n, nn, 0); MPN_ZERO(n, 1 + (mp_size_t)rnd_below(nn)); break;
  case 6: rnd_limbs(n, nn, 3); break;
  case 7: MPN_ZERO(n, nn); MPN_COPY(n, d, dn); break;
  default: if (qn == 0) { MPN_COPY(n, d, dn); break; }
    q = gb_get(8, qn, 1); t = gb_get(9, nn, 1); rnd_limbs(q, qn, (int)rnd_below(NKINDS));
    if (qn >= dn) mpn_mul(t, q, qn, d, dn); else mpn_mul(t, d, dn, q, qn);
    MPN_COPY(n, t, nn);
  }
}
static void bdiv_case(mp_size_t nn, mp_size_t dn, int how, int dk, int place) {
  mp_size_t qn = nn - dn;
  mp_ptr n = gb_get(0, nn, place), d = gb_get(1, dn, place), q = gb_get(2, nn, place), w = gb_get(3, nn, place), wp = gb_get(6, 2, place); mp_limb_t dinv, cy;
  mk_odd(d, dn, dk); mk_bnum(n, nn, d, dn, how); modlimb_invert(dinv, d[0]);
  MPN_COPY(w, n, nn); fn_begin("mpn_sb_bdiv_q"); IN_ND(); gb_fill(q, nn); gb_fill(wp, 2); mpn_sb_bdiv_q(q, wp, w, nn, d, dn, dinv); fn_out_limbs("q", q, nn); fn_out_limbs("w", wp, 2); fn_end();
  if (dn >= 6) { MPN_COPY(w, n, nn); fn_begin("mpn_dc_bdiv_q"); IN_ND(); gb_fill(q, nn); mpn_dc_bdiv_q(q, w, nn, d, dn, dinv); fn_out_limbs("q", q, nn); fn_end(); }
  if (dn >= 6 && qn == 0) {
    mp_ptr tp = gb_get(4, DC_BDIV_Q_N_ITCH(dn), place);
    MPN_COPY(w, n, nn); fn_begin("mpn_dc_bdiv_q_n"); IN_ND(); gb_fill(q, nn); gb_fill(wp, 2); gb_fill(tp, DC_BDIV_Q_N_ITCH(dn)); mpn_dc_bdiv_q_n(q, wp, w, d, dn, dinv, tp); fn_out_limbs("q", q, nn); fn_out_limbs("w", wp, 2); fn_end();
  }
  if (qn >= 1) {
    mp_ptr q1 = gb_get(2, qn, place);
    MPN_COPY(w, n, nn); fn_begin("mpn_sb_bdiv_qr"); IN_ND(); gb_fill(q1, qn); cy = mpn_sb_bdiv_qr(q1, w, nn, d, dn, dinv); fn_out_limbs("q", q1, qn); fn_out_limbs("r", w + qn, dn); fn_out_u64("cy", cy); fn_end();
    if (dn >= 2) { MPN_COPY(w, n, nn); fn_begin("mpn_dc_bdiv_qr"); IN_ND(); gb_fill(q1, qn); cy = mpn_dc_bdiv_qr(q1, w, nn, d, dn, dinv); fn_out_limbs("q", q1, qn); fn_out_limbs("r", w + qn, dn); fn_out_u64("cy", cy); fn_end(); }
    if (dn >= 2 && qn == dn) {
      mp_ptr tp = gb_get(4, DC_BDIV_QR_N_ITCH(dn), place);
      MPN_COPY(w, n, nn); fn_begin("mpn_dc_bdiv_qr_n"); IN_ND(); gb_fill(q1, qn); gb_fill(tp, DC_BDIV_QR_N_ITCH(dn)); cy = mpn_dc_bdiv_qr_n(q1, w, d, dn, dinv, tp); fn_out_limbs("q", q1, qn); fn_out_limbs("r", w + qn, dn); fn_out_u64("cy", cy); fn_end();
    }
  }
}
void drv_k2_bdiv(int tier, unsigned long seed, const char *extra) {
  shard_t sh = shard_parse(extra); long x = 0; int i, j, t, dns[120], nd = 0;
  const int thr[] = {DC_BDIV_Q_THRESHOLD, DC_BDIV_QR_THRESHOLD, 2 * DC_BDIV_Q_THRESHOLD, 2 * DC_BDIV_QR_THRESHOLD, 4 * DC_BDIV_Q_THRESHOLD};
  if (sh.pure) { dns[nd++] = 1; dns[nd++] = 2; }
  else { for (i = 1; i <= (tier ? 44 : 26); i++) dns[nd++] = i; nd += sizes_around(dns + nd, 40, thr, 5, dns[nd - 1] + 1, 300); if (tier) { dns[nd++] = 160; dns[nd++] = 333; } }
  for (i = 0; i < nd; i++) {
    int dn = dns[i], qs[14], nq = 0, reps = sh.pure ? 2 : (tier ? 8 : 3);
    qs[nq++] = 0; qs[nq++] = 1; if (!sh.pure) { qs[nq++] = 2; qs[nq++] = dn / 2 + 1; qs[nq++] = dn - 1; qs[nq++] = dn; qs[nq++] = dn + 1; qs[nq++] = 2 * dn; qs[nq++] = 2 * dn + 1; qs[nq++] = dn < 60 ? 4 * dn + 3 : dn + 57; }
    for (j = 0; j < nq; j++) {
      if (j > 1 && qs[j] <= 2 && qs[j] == qs[j - 1]) continue;
      x++; if (!MINE(sh, x)) continue;
      rec_reset("k2_bdiv", x, seed);
      for (t = 0; t < reps; t++) bdiv_case(dn + (qs[j] < 0 ? 0 : qs[j]), dn, (int)((x + 3 * t) % 8), (int)((x / 3 + 3 * t) % NDK), t & 1);
    }
  }
  /* mpn_bdivmod: Q = U / V mod 2^d for bit counts d on and off limb boundaries up to usize*64; separate quotient area, and quotient over the low limbs of U (qp = up) */
  for (i = 1; i <= (sh.pure ? 2 : (tier ? 40 : 22)); i++) for (j = 1; j <= (sh.pure ? 2 : (tier ? 24 : 12)); j += (j < 4 ? 1 : 4)) {
    mp_size_t un = i, vn = j;
    x++; if (!MINE(sh, x)) continue;
    rec_reset("k2_bdiv", x, seed);
    for (t = 0; t < (sh.pure ? 3 : 8); t++) {
      unsigned long bits = t == 0 ? un * 64 : t == 1 ? 64 * (1 + rnd_below(un)) : t == 2 ? (un > 1 ? 64 * (un - 1) + 1 + rnd_below(63) : 1 + rnd_below(63)) : t == 3 ? rnd_below(64) : rnd_below(un * 64 + 1);
      mp_size_t k = bits / 64; int inplace = t >= 5; mp_limb_t ret;
      mp_ptr u = gb_get(0, un, t & 1), v = gb_get(1, vn, t & 1), w = gb_get(3, un, t & 1), q = inplace ? w : gb_get(2, k, t & 1);
      if (un == 2 && vn == 2 && t >= 6) bits = 64 * (t - 5), k = bits / 64;          /* the two-limb shortcut */
      mk_odd(v, vn, (int)(x + t)); rnd_limbs(u, un, (int)((x / 2 + t) % NKINDS)); MPN_COPY(w, u, un);
      fn_begin("mpn_bdivmod"); fn_in_limbs("u", u, un); fn_in_int("un", un); fn_in_limbs("v", v, vn); fn_in_int("vn", vn); fn_in_int("bits", (long)bits); fn_in_int("inplace", inplace); fn_mid();
      if (!inplace) gb_fill(q, k);
      ret = mpn_bdivmod(q, w, un, v, vn, bits);
      fn_out_limbs("q", q, k); fn_out_u64("ret", ret); fn_out_limbs("uhi", w + k, un - k); if (!inplace) fn_out_limbs("u", w, un); fn_end();
    }
  }
}

/* ---- single-limb divisors ---- */
mp_limb_t mpn_mod_1_1_wrap(mp_srcptr, mp_size_t, mp_limb_t); mp_limb_t mpn_mod_1_2_wrap(mp_srcptr, mp_size_t, mp_limb_t); mp_limb_t mpn_mod_1_3_wrap(mp_srcptr, mp_size_t, mp_limb_t);   /* divrem_euclidean_r_1.c (exported, no header declaration) */
static mp_limb_t pick_limb(int c) {     /* divisor classes */
  mp_limb_t d;
  switch (c % 10) { case 0: d = rnd64(); break; case 1: d = rnd64() >> (1 + rnd_below(62)); break; case 2: d = (mp_limb_t)1 << rnd_below(64); break;
    case 3: d = ((mp_limb_t)1 << (1 + rnd_below(63))) - 1; break; case 4: d = ONES; break; case 5: d = rnd64() | B63; break;
    case 6: d = 1 + rnd_below(3); break; case 7: d = B63 + (mp_limb_t)rnd_below(3) - 1; break; case 8: d = ((mp_limb_t)1 << (1 + rnd_below(62))) + 1; break; default: d = ONES - 2 * rnd_below(3); }
  return d ? d : 1;
}
#define IN_N1() do { fn_in_limbs("n", a, n); fn_in_int("nn", n); fn_in_u64("d", d); } while (0)
static void div1_case(mp_size_t n, int kind, int c, int place) {
  mp_ptr a = gb_get(0, n, place), q = gb_get(1, n, place), w = gb_get(2, n, place); mp_limb_t d0 = pick_limb(c), d, r; int k, s;
  rnd_limbs(a, n, kind);
  if (c % 3 == 1 && n > 1) a[n - 1] = 0;                       /* high limb zero: these kernels take any limb vector */
  /* mpn_mod_1_k (k = 1..3): db[j] = B^(j+1) mod d for a divisor with (k+1)(d-1) <= B; the wrappers with the same divisor */
  for (k = 1; k <= 3; k++) {
    mp_limb_t lim = k == 1 ? B63 + 1 : k == 2 ? ONES / 3 + 1 : B63 / 2 + 1, db[4], rem[2]; unsigned __int128 p = 1; int j;
    d = d0 > lim ? (c & 1 ? lim - (d0 % 3) : 1 + d0 % lim) : d0;
    for (j = 0; j <= k; j++) { p = (p << 64) % d; db[j] = (mp_limb_t)p; }
    if (n >= k + 2) { mp_ptr dbp = gb_get(3, k + 1, place), rp = gb_get(4, 2, place); memcpy(dbp, db, (k + 1) * 8);
      fn_begin("mpn_mod_1_k"); IN_N1(); fn_in_int("k", k); fn_mid(); gb_fill(rp, 2);
      if (k == 1) mpn_mod_1_1(rp, a, n, dbp); else if (k == 2) mpn_mod_1_2(rp, a, n, dbp); else mpn_mod_1_3(rp, a, n, dbp);
      fn_out_limbs("rem", rp, 2); fn_end(); }
    /* the wrappers hand {xp,xn} to mpn_mod_1_k, whose domain is xn >= k+2 (the k8 assembly reads xp[xn-k-2] unconditionally); their only caller,
       mpn_divrem_euclidean_r_1, uses them above MOD_1_k_THRESHOLD; xn <= 1 is answered by the wrapper itself */
    if (n >= k + 2 || n <= 1) {
    fn_begin("mpn_mod_1_k_wrap"); IN_N1(); fn_in_int("k", k); fn_mid(); r = k == 1 ? mpn_mod_1_1_wrap(a, n, d) : k == 2 ? mpn_mod_1_2_wrap(a, n, d) : mpn_mod_1_3_wrap(a, n, d); fn_out_u64("r", r); fn_end(); }
    (void)rem;
  }
  d = d0;
  fn_begin("mpn_divrem_euclidean_r_1"); IN_N1(); fn_mid(); r = mpn_divrem_euclidean_r_1(a, n, d); fn_out_u64("r", r); fn_end();
  fn_begin("mpn_divrem_euclidean_qr_1"); IN_N1(); fn_in_int("qxn", 0); fn_mid(); gb_fill(q, n); r = mpn_divrem_euclidean_qr_1(q, 0, a, n, d); fn_out_limbs("q", q, n); fn_out_u64("r", r); fn_end();
  MPN_COPY(w, a, n); fn_begin("mpn_divrem_euclidean_qr_1"); IN_N1(); fn_in_int("qxn", 0); fn_mid(); r = mpn_divrem_euclidean_qr_1(w, 0, w, n, d); fn_out_limbs("q", w, n); fn_out_u64("r", r); fn_end();     /* qp == xp */
  { /* precomputed inverse of the normalised divisor */
    mp_limb_t dn_, dinv; mp_size_t qxn = c % 3 == 2 ? 1 + (mp_size_t)rnd_below(2) : 0; mp_ptr qq = gb_get(5, n + qxn, place);
    count_leading_zeros(s, d); dn_ = d << s; invert_limb(dinv, dn_);
    fn_begin("mpn_preinv_divrem_1"); IN_N1(); fn_in_int("qxn", qxn); fn_mid(); gb_fill(qq, n + qxn); r = mpn_preinv_divrem_1(qq, qxn, a, n, d, dinv, s); fn_out_limbs("q", qq, n + qxn); fn_out_u64("r", r); fn_end();
    MPN_COPY(w, a, n); fn_begin("mpn_preinv_divrem_1"); IN_N1(); fn_in_int("qxn", 0); fn_mid(); r = mpn_preinv_divrem_1(w, 0, w, n, d, dinv, s); fn_out_limbs("q", w, n); fn_out_u64("r", r); fn_end();
    fn_begin("mpn_preinv_mod_1"); fn_in_limbs("n", a, n); fn_in_int("nn", n); fn_in_u64("d", dn_); fn_mid(); r = mpn_preinv_mod_1(a, n, dn_, dinv); fn_out_u64("r", r); fn_end();
  }
  fn_begin("mpn_mod_34lsub1"); fn_in_limbs("n", a, n); fn_in_int("nn", n); fn_mid(); r = mpn_mod_34lsub1(a, n); fn_out_u64("r", r); fn_end();
  fn_begin("mpn_divexact_byff"); fn_in_limbs("n", a, n); fn_in_int("nn", n); fn_mid(); gb_fill(q, n); r = mpn_divexact_byff(q, a, n); fn_out_limbs("q", q, n); fn_out_u64("ret", r); fn_end();
  MPN_COPY(w, a, n); fn_begin("mpn_divexact_byff"); fn_in_limbs("n", a, n); fn_in_int("nn", n); fn_mid(); r = mpn_divexact_byff(w, w, n); fn_out_limbs("q", w, n); fn_out_u64("ret", r); fn_end();
  { static const mp_limb_t fs[] = {1, 3, 5, 15, 17, 51, 85, 255, 257, 641, 65535, 65537, 6700417, 0xffffffffUL, 0x100000001UL, ONES / 3, ONES / 5, ONES}; mp_limb_t f = fs[(c + 5 * kind + n) % 18];
    fn_begin("mpn_divexact_byfobm1"); fn_in_limbs("n", a, n); fn_in_int("nn", n); fn_in_u64("f", f); fn_mid(); gb_fill(q, n); r = mpn_divexact_byfobm1(q, a, n, f, ONES / f); fn_out_limbs("q", q, n); fn_out_u64("ret", r); fn_end(); }
  /* odd divisors: Hensel division and the exact-division style remainder */
  d = d0 | 1;
  { mp_limb_t cin = c % 4 == 0 ? 0 : c % 4 == 1 ? rnd64() % d : c % 4 == 2 ? d - 1 : (c & 8 ? d : rnd64());
    fn_begin("mpn_modexact_1c_odd"); IN_N1(); fn_in_u64("c", cin); fn_mid(); r = mpn_modexact_1c_odd(a, n, d, cin); fn_out_u64("r", r); fn_end(); }
  fn_begin("mpn_divrem_hensel_qr_1"); IN_N1(); fn_mid(); gb_fill(q, n); r = mpn_divrem_hensel_qr_1(q, a, n, d); fn_out_limbs("q", q, n); fn_out_u64("ret", r); fn_end();
  fn_begin("mpn_divrem_hensel_qr_1_1"); IN_N1(); fn_mid(); gb_fill(q, n); r = mpn_divrem_hensel_qr_1_1(q, a, n, d); fn_out_limbs("q", q, n); fn_out_u64("ret", r); fn_end();
  /* the _1_2 entry points are reached only through the dispatcher, at or above its threshold (the assembly versions state a minimum of 3 limbs) */
  if (n >= 2 && !BELOW_THRESHOLD(n, DIVREM_HENSEL_QR_1_THRESHOLD)) { fn_begin("mpn_divrem_hensel_qr_1_2"); IN_N1(); fn_mid(); gb_fill(q, n); r = mpn_divrem_hensel_qr_1_2(q, a, n, d); fn_out_limbs("q", q, n); fn_out_u64("ret", r); fn_end();
    MPN_COPY(w, a, n); fn_begin("mpn_divrem_hensel_qr_1_2"); IN_N1(); fn_mid(); r = mpn_divrem_hensel_qr_1_2(w, w, n, d); fn_out_limbs("q", w, n); fn_out_u64("ret", r); fn_end(); }
  MPN_COPY(w, a, n); fn_begin("mpn_divrem_hensel_qr_1"); IN_N1(); fn_mid(); r = mpn_divrem_hensel_qr_1(w, w, n, d); fn_out_limbs("q", w, n); fn_out_u64("ret", r); fn_end();
  fn_begin("mpn_divrem_hensel_r_1"); IN_N1(); fn_mid(); r = mpn_divrem_hensel_r_1(a, n, d); fn_out_u64("ret", r); fn_end();
  s = c % 5 == 0 ? 0 : c % 5 == 1 ? 63 : (int)rnd_below(64);
  fn_begin("mpn_divrem_hensel_rsh_qr_1"); IN_N1(); fn_in_int("s", s); fn_mid(); gb_fill(q, n); r = mpn_divrem_hensel_rsh_qr_1(q, a, n, d, s); fn_out_limbs("q", q, n); fn_out_u64("ret", r); fn_end();
  { mp_limb_t m; modlimb_invert(m, d); MPN_COPY(w, a, n);
    fn_begin("mpn_divrem_hensel_rsh_qr_1_preinv"); IN_N1(); fn_in_int("s", s); fn_mid(); r = mpn_divrem_hensel_rsh_qr_1_preinv(w, w, n, d, m, s); fn_out_limbs("q", w, n); fn_out_u64("ret", r); fn_end(); }
  { mp_limb_t cin = c % 3 == 0 ? 0 : c % 3 == 1 ? rnd64() % d : d - 1;        /* carry-in below the divisor (its caller passes a remainder) */
    fn_begin("mpn_rsh_divrem_hensel_qr_1"); IN_N1(); fn_in_int("s", s); fn_in_u64("cin", cin); fn_mid(); gb_fill(q, n); r = mpn_rsh_divrem_hensel_qr_1(q, a, n, d, s, cin); fn_out_limbs("q", q, n); fn_out_u64("ret", r); fn_end();
    fn_begin("mpn_rsh_divrem_hensel_qr_1_1"); IN_N1(); fn_in_int("s", s); fn_in_u64("cin", cin); fn_mid(); gb_fill(q, n); r = mpn_rsh_divrem_hensel_qr_1_1(q, a, n, d, s, cin); fn_out_limbs("q", q, n); fn_out_u64("ret", r); fn_end();
    if (n >= 2 && !BELOW_THRESHOLD(n, RSH_DIVREM_HENSEL_QR_1_THRESHOLD)) { fn_begin("mpn_rsh_divrem_hensel_qr_1_2"); IN_N1(); fn_in_int("s", s); fn_in_u64("cin", cin); fn_mid(); gb_fill(q, n); r = mpn_rsh_divrem_hensel_qr_1_2(q, a, n, d, s, cin); fn_out_limbs("q", q, n); fn_out_u64("ret", r); fn_end(); }
    MPN_COPY(w, a, n); fn_begin("mpn_rsh_divrem_hensel_qr_1"); IN_N1(); fn_in_int("s", s); fn_in_u64("cin", cin); fn_mid(); r = mpn_rsh_divrem_hensel_qr_1(w, w, n, d, s, cin); fn_out_limbs("q", w, n); fn_out_u64("ret", r); fn_end();
    /* the composition its caller mpn_divrem_1 relies on: cin = X mod (d << s') makes the division exact */
    if (d0 <= B63 / 2 + 1) { mp_limb_t de = d0, dodd; int tz; count_trailing_zeros(tz, de); dodd = de >> tz; cin = mpn_divrem_euclidean_r_1(a, n, de);
      fn_begin("mpn_rsh_divrem_hensel_qr_1"); fn_in_limbs("n", a, n); fn_in_int("nn", n); fn_in_u64("d", dodd); fn_in_int("s", tz); fn_in_u64("cin", cin); fn_mid(); gb_fill(q, n); r = mpn_rsh_divrem_hensel_qr_1(q, a, n, dodd, tz, cin); fn_out_limbs("q", q, n); fn_out_u64("ret", r); fn_end(); } }
  /* two-limb normalised divisor */
  if (n >= 2) { mp_ptr dp = gb_get(3, 2, place), qq = gb_get(5, n - 2, place); mp_limb_t qh; mk_divisor(dp, 2, c); if (c % 4 == 3) MPN_COPY(a + n - 2, dp, 2);
    MPN_COPY(w, a, n); fn_begin("mpn_divrem_euclidean_qr_2"); fn_in_limbs("n", a, n); fn_in_int("nn", n); fn_in_limbs("d", dp, 2); fn_mid(); gb_fill(qq, n - 2); qh = mpn_divrem_euclidean_qr_2(qq, w, n, dp);
    fn_out_limbs("q", qq, n - 2); fn_out_u64("qh", qh); fn_out_limbs("r", w, 2); fn_end(); }
}
void drv_k2_div1(int tier, unsigned long seed, const char *extra) {
  shard_t sh = shard_parse(extra); long x = 0; mp_size_t n; int kk, cc;
  mp_size_t maxn = sh.pure ? 3 : (tier ? 80 : 42);
  for (n = 1; n <= maxn; n++) for (kk = 0; kk < (sh.pure ? 1 : (tier ? NKINDS : 3)); kk++) {
    x++; if (!MINE(sh, x)) continue;
    rec_reset("k2_div1", x, seed);
    for (cc = 0; cc < (sh.pure ? 2 : (tier ? 5 : 3)); cc++) div1_case(n, (int)((n + 2 * kk) % NKINDS), (int)((x + 3 * cc) % 10) + (cc ? 8 * (int)(rnd64() & 1) : 0), (cc + kk) & 1);
  }
}

/* mpn_divisible_p: both operands normalised (asize = 0 allowed); multiples, multiples +-1, low zero limbs and bits on either operand, the
   two-limb divisor that shifts down to one limb, sizes on both sides of asize = dsize */
void drv_k2_divis(int tier, unsigned long seed, const char *extra) {
  shard_t sh = shard_parse(extra); long x = 0; int i, j, t;
  static const int dss[] = {1, 2, 3, 4, 7, 12, 30, 52, 70}, qss[] = {-2, -1, 0, 1, 2, 5, 33};
  for (i = 0; i < (sh.pure ? 2 : (tier ? 9 : 7)); i++) for (j = 0; j < (sh.pure ? 4 : 7); j++) {
    mp_size_t dn = dss[i], qn = qss[j];
    x++; if (!MINE(sh, x)) continue;
    rec_reset("k2_divis", x, seed);
    for (t = 0; t < (sh.pure ? 4 : 14); t++) {
      mp_size_t an, z; mp_ptr d = gb_get(1, dn, t & 1), a, pr = gb_get(3, dn + (qn > 0 ? qn : 0) + 1, 1), qq = gb_get(4, qn > 0 ? qn : 1, 1); int ret;
      rnd_limbs(d, dn, (int)((x + t) % NKINDS));
      if (t % 7 == 1) d[0] |= 1; if (t % 7 == 2) d[0] &= ~(mp_limb_t)0 << (1 + rnd_below(63)); if (t % 7 == 3 && dn > 1) MPN_ZERO(d, 1 + (mp_size_t)rnd_below(dn - 1));
      if (!d[dn - 1]) d[dn - 1] = 1 + (rnd64() >> rnd_below(64));
      if (t % 7 == 4 && dn == 2) { int tw = 1 + (int)rnd_below(62); d[0] = (rnd64() | 1) << tw; d[1] = 1 + rnd_below(((mp_limb_t)1 << tw) - 1); }     /* dsecond <= low-zeros mask */
      if (qn <= 0) { an = dn + qn > 0 ? dn + qn : 0; if (t % 3 == 0) an = 0;                 /* a shorter than d, equal size, or zero */
        if (an) { rnd_limbs(pr, an, (int)((x / 2 + t) % NKINDS)); if (qn == 0 && t % 3 == 1) MPN_COPY(pr, d, dn); if (qn == 0 && t % 3 == 2 && t > 6) (void)mpn_lshift(pr, d, dn, 1); if (!pr[an - 1]) pr[an - 1] = 1; } }
      else { rnd_limbs(qq, qn, (int)((x / 3 + t) % NKINDS)); if (!qq[qn - 1]) qq[qn - 1] = 1;
        if (qn >= dn) mpn_mul(pr, qq, qn, d, dn); else mpn_mul(pr, d, dn, qq, qn); an = dn + qn; if (!pr[an - 1]) an--;
        if (t >= 7) { if (t % 3 == 0) mpn_add_1(pr, pr, an, 1); else if (t % 3 == 1) mpn_sub_1(pr, pr, an, 1); else pr[rnd_below(an)] ^= (mp_limb_t)1 << rnd_below(64); MPN_NORMALIZE(pr, an); }
        if (t == 5 && an > 1) { z = 1 + (mp_size_t)rnd_below(an - 1); MPN_ZERO(pr, z); } }
      a = gb_get(0, an, t & 1); if (an) MPN_COPY(a, pr, an);
      fn_begin("mpn_divisible_p"); fn_in_limbs("a", a, an); fn_in_int("an", an); fn_in_limbs("d", d, dn); fn_in_int("dn", dn); fn_mid(); ret = mpn_divisible_p(a, an, d, dn); fn_out_int("ret", ret); fn_end();
    }
  }
}
