/* Generic, API-table driven drivers (C04, C05 and the per-property alias sweeps):
     alias : for every function of the table (or funs=a:b:c) every partition of its mpz arguments into identity classes that
             the manual permits, x value classes, x {aliased object allocated exactly, generously}; output-only
             destinations are shrunk to the smallest legal allocation first.
     hist  : seeded random histories of calls over the pool with mpz_realloc2 (shrink / grow) between calls, init/clear/swap.
   Argument domains (divisor non-zero, exact division, small exponents ...) are respected through fixups that are themselves
   recorded calls, so the specification sees every value. */
#include "util.h"

static int has(const char *s, const char *sub) { return strstr(s, sub) != NULL; }
static int is_obj_kind(int k) { return k >= K_ZO && k <= K_FIO; }
static int is_z(int k) { return k == K_ZO || k == K_ZI || k == K_ZIO; }
static int is_out(int k) { return k == K_ZO || k == K_ZIO || k == K_QO || k == K_QIO || k == K_FO || k == K_FIO; }
static int is_in(int k) { return k == K_ZI || k == K_ZIO || k == K_QI || k == K_QIO || k == K_FI || k == K_FIO; }

/* functions the generic mpz drivers do not call (lifecycle, strings and streams have their own drivers; random and
   probabilistic functions are covered by C16/C19) */
static int skip_generic(const api_fn *f) {
  int i;
  if (strncmp(f->name, "mpz_", 4)) return 1;
  if (has(f->name, "init") || has(f->name, "clear") || has(f->name, "realloc") || has(f->name, "_str") || has(f->name, "random") ||
      has(f->name, "prime") || has(f->name, "miller") || has(f->name, "set_q") || has(f->name, "set_f") || has(f->name, "gcdext_n") ||
      has(f->name, "_null")) return 1;
  for (i = 0; i < f->nargs; i++) if (!(is_z(f->kinds[i]) || f->kinds[i] == K_U || f->kinds[i] == K_S || f->kinds[i] == K_B || f->kinds[i] == K_I || f->kinds[i] == K_D)) return 1;
  return 0;
}

static const uint64_t UIS[] = {0, 1, 2, 3, 255, 0xffffffffUL, 0x100000000UL, 0x7fffffffffffffffUL, 0x8000000000000000UL, 0xffffffffffffffffUL, 1000003, 720720};
static const int64_t SIS[] = {0, 1, -1, 2, -3, 0x7fffffff, -0x80000000L, 0x7fffffffffffffffL, -0x7fffffffffffffffL - 1, 12345, -720720};
static const double DS[] = {0.0, 1.0, -1.0, 0.5, -2.5, 4294967296.0, 9007199254740993.0, -1.8446744073709552e19, 1e30, -1e-30, 123456789.75};

static uint64_t gen_u(const char *f, int pos, int vclass) {
  if (has(f, "ui_pow_ui")) return pos == 1 ? UIS[rnd_below(12)] >> (rnd_below(2) ? 0 : 40) : rnd_below(6);
  if (has(f, "pow_ui")) return rnd_below(13);
  if (has(f, "root")) return 1 + rnd_below(7);
  if (has(f, "mfac")) return pos == 1 ? rnd_below(120) : 1 + rnd_below(7);          /* before "fac_ui", which mpz_mfac_uiui also contains: m = 0 is outside the domain */
  if (has(f, "fac_ui") || has(f, "primorial") || has(f, "fib") || has(f, "lucnum")) return vclass == 0 ? rnd_below(25) : rnd_below(400);
  if (has(f, "bin_uiui")) return pos == 1 ? rnd_below(90) : rnd_below(40);
  if (has(f, "bin_ui")) return rnd_below(25);
  if (has(f, "powm_ui")) return rnd_below(2) ? rnd_below(40) : rnd64() >> 44;
  { uint64_t v = rnd_below(3) ? UIS[rnd_below(12)] : rnd64() >> rnd_below(64);
    if ((has(f, "div") || has(f, "mod")) && !has(f, "divisible") && v == 0) v = 7;
    return v; }
}
static uint64_t gen_b(const char *f) { static const int b[] = {0, 1, 2, 63, 64, 65, 127, 128, 129, 200, 31}; return rnd_below(4) ? (uint64_t)b[rnd_below(11)] : rnd_below(330); }

/* value class of an mpz operand: size in limbs */
static int gen_limbs(int vclass) {
  static const int small[] = {0, 1, 1, 2, 2, 3}; static const int mid[] = {1, 2, 3, 4, 6, 9, 13, 20}; static const int big[] = {18, 25, 33, 50, 70, 110};
  return vclass == 0 ? small[rnd_below(6)] : vclass == 1 ? mid[rnd_below(8)] : big[rnd_below(6)];
}
static void exact_alloc(int i) { callf("mpz_realloc2", i, (uint64_t)(ABSIZ(Zp[i]) ? (uint64_t)ABSIZ(Zp[i]) * 64 : 1)); }

/* makes the operand values legal for f; var[p] = pool index bound to argument position p. Uses spare pool variables 6 and 7. */
static void fixups(const api_fn *f, int *var, arg_t *a) {
  const char *n = f->name; int i, zin[8], nz = 0;
  for (i = 0; i < f->nargs; i++) if (f->kinds[i] == K_ZI) zin[nz++] = i;
  /* divisor = last mpz input of the division families */
  if ((has(n, "div") || !strcmp(n, "mpz_mod") || has(n, "invert")) && !has(n, "divisible") && !has(n, "_ui") && !has(n, "2exp") && nz >= 2) {
    int d = var[zin[nz - 1]];
    if (SIZ(Zp[d]) == 0) callf("mpz_set_si", d, (int64_t)(rnd_below(2) ? 3 : -5));
    if (has(n, "invert") && ABSIZ(Zp[d]) == 1 && PTR(Zp[d])[0] == 1) callf("mpz_set_si", d, (int64_t)-7);
    if (has(n, "divexact")) { int u = var[zin[0]];
      if (u != d) { callf("mpz_set", 6, u); callf("mpz_mul", u, 6, d); } }     /* dividend := dividend * divisor */
  }
  if (!strcmp(n, "mpz_divexact_ui")) { int u = var[zin[0]]; if (a[2].u == 0) a[2].u = 3; callf("mpz_mul_ui", u, u, a[2].u); }
  if (has(n, "sqrt") || has(n, "perfect_square")) { int u = var[zin[0]]; if (SIZ(Zp[u]) < 0) callf("mpz_abs", u, u); }
  if (has(n, "root") && nz >= 1) { int u = var[zin[0]], k; for (k = 0; k < f->nargs; k++) if (f->kinds[k] == K_U && (a[k].u & 1) == 0 && SIZ(Zp[u]) < 0) callf("mpz_abs", u, u); }
  if (!strcmp(n, "mpz_remove")) { int op = var[zin[0]], ff = var[zin[1]];
    if (op == ff) { if (mpz_cmp_ui(Zp[op], 2) < 0) callf("mpz_set_ui", op, (uint64_t)6); }
    else { callf("mpz_set_ui", ff, (uint64_t)(2 + rnd_below(9))); if (SIZ(Zp[op]) == 0) callf("mpz_set_ui", op, (uint64_t)1);
           callf("mpz_pow_ui", 6, ff, (uint64_t)rnd_below(9)); callf("mpz_mul", op, op, 6); } }
  if (!strcmp(n, "mpz_jacobi") || !strcmp(n, "mpz_legendre")) { int b = var[zin[1]];
    if (!strcmp(n, "mpz_legendre")) { static const uint64_t pr[] = {3, 5, 7, 65537, 4294967311UL, 18446744073709551557UL}; callf("mpz_set_ui", b, pr[rnd_below(6)]); }
    else { if (SIZ(Zp[b]) < 0) callf("mpz_abs", b, b); if (SIZ(Zp[b]) == 0 || !(PTR(Zp[b])[0] & 1)) callf("mpz_setbit", b, (uint64_t)0); } }
  if (!strcmp(n, "mpz_powm") || !strcmp(n, "mpz_powm_ui")) { int m = var[zin[nz - 1]];
    if (SIZ(Zp[m]) == 0) callf("mpz_set_si", m, (int64_t)-9);
    if (!strcmp(n, "mpz_powm")) { int e = var[zin[1]];
      if (e != m && ABSIZ(Zp[e]) > 2) callf("mpz_tdiv_r_2exp", e, e, (uint64_t)(20 + rnd_below(90)));
      if (SIZ(Zp[e]) < 0) callf("mpz_abs", e, e); } }
  if (!strcmp(n, "mpz_bin_ui")) { int u = var[zin[0]]; if (ABSIZ(Zp[u]) > 3) callf("mpz_tdiv_r_2exp", u, u, (uint64_t)150); }
  if (!strcmp(n, "mpz_nextprime")) { int u = var[zin[0]]; if (ABSIZ(Zp[u]) > 3) callf("mpz_tdiv_r_2exp", u, u, (uint64_t)190); if (SIZ(Zp[u]) < 0) callf("mpz_abs", u, u); }
  if (has(n, "perfect_power")) { int u = var[zin[0]]; if (ABSIZ(Zp[u]) > 12) callf("mpz_tdiv_r_2exp", u, u, (uint64_t)700); }
  if (has(n, "gcdext") || !strcmp(n, "mpz_lcm") || !strcmp(n, "mpz_gcd")) { /* sometimes a common factor */
    if (nz >= 2 && var[zin[0]] != var[zin[1]] && rnd_below(3) == 0) { callf("drv_rndz", 6, 1 + (int)rnd_below(3), 0, 0); callf("mpz_mul", var[zin[0]], var[zin[0]], 6); callf("mpz_mul", var[zin[1]], var[zin[1]], 6); } }
}

/* one call of f with its object arguments bound by var[] (pool indices per position); frees returned strings */
static void call_bound(const api_fn *f, int *var, arg_t *a) {
  ret_t r; int i;
  for (i = 0; i < f->nargs; i++) if (is_obj_kind(f->kinds[i])) a[i].idx = var[i];
  do_call(f, a, &r);
  if (f->rkind == RT_STR && r.str) rec_free_str(r.str);
}

static int want(const shard_t *sh, const char *name) {
  const char *fl = opt_val(sh, "funs"); char pat[96];
  if (!fl) return 1;
  snprintf(pat, sizeof pat, ":%s:", name);
  { char all[4096]; snprintf(all, sizeof all, ":%s:", fl); return strstr(all, pat) != NULL; }
}

void drv_alias(int tier, unsigned long seed, const char *extra) {
  shard_t sh = shard_parse(extra); long x = 0; int fi;
  int nclass = sh.pure ? 1 : 3, reps = tier ? 3 : 1;
  for (fi = 0; fi < api_count; fi++) {
    const api_fn *f = &api_table[fi]; int pos[8], np = 0, i, part[8], k, vclass, exact, rep;
    if (skip_generic(f) || !want(&sh, f->name)) continue;
    for (i = 0; i < f->nargs; i++) if (is_z(f->kinds[i])) pos[np++] = i;
    if (np == 0) continue;
    /* restricted growth strings = set partitions of the np mpz positions */
    for (i = 0; i < np; i++) part[i] = 0;
    for (;;) {
      int ok = 1, a1, a2, nblocks = 0;
      for (i = 0; i < np; i++) if (part[i] + 1 > nblocks) nblocks = part[i] + 1;
      /* the manual excludes the same variable for two results */
      for (a1 = 0; a1 < np && ok; a1++) for (a2 = a1 + 1; a2 < np; a2++)
        if (part[a1] == part[a2] && is_out(f->kinds[pos[a1]]) && is_out(f->kinds[pos[a2]]) && strcmp(f->name, "mpz_swap")) ok = 0;
      if (ok) for (vclass = 0; vclass < nclass; vclass++) for (exact = 0; exact < 2; exact++) for (rep = 0; rep < reps; rep++) {
        arg_t a[8]; int var[8], b;
        x++; if (!MINE(sh, x)) continue;
        rec_reset("alias", x, seed);
        for (i = 0; i < 8; i++) callf("mpz_init", i);
        memset(a, 0, sizeof a); for (i = 0; i < 8; i++) var[i] = 0;
        for (i = 0; i < np; i++) var[pos[i]] = part[i];
        /* values: every block that contains an input (or in-out) position gets a value */
        for (b = 0; b < nblocks; b++) {
          int hasin = 0; for (i = 0; i < np; i++) if (part[i] == b && is_in(f->kinds[pos[i]])) hasin = 1;
          if (hasin) callf("drv_rndz", b, gen_limbs(vclass), (int)rnd_below(NKINDS), (int)rnd_below(2));
          else callf("drv_rndz", b, (int)rnd_below(3), 0, (int)rnd_below(2));       /* stale content in a pure destination */
        }
        for (i = 0; i < f->nargs; i++) { a[i].kind = f->kinds[i];
          switch (f->kinds[i]) { case K_U: a[i].u = gen_u(f->name, i, vclass); break; case K_S: a[i].s = SIS[rnd_below(11)]; break;
            case K_B: a[i].u = gen_b(f->name); break; case K_I: a[i].s = has(f->name, "sizeinbase") ? 2 + (int)rnd_below(61) : (int)rnd_below(30); break;
            case K_D: a[i].d = DS[rnd_below(11)]; break; default: break; } }
        fixups(f, var, a);
        for (b = 0; b < nblocks; b++) { if (exact || rnd_below(2)) exact_alloc(b); }
        call_bound(f, var, a);
        for (i = 0; i < 8; i++) callf("mpz_clear", i);
        rec_quiesce();
      }
      /* next restricted growth string */
      for (k = np - 1; k > 0; k--) { int mx = 0; for (i = 0; i < k; i++) if (part[i] > mx) mx = part[i]; if (part[k] <= mx) { part[k]++; break; } part[k] = 0; }
      if (k == 0) break;
    }
  }
}

/* corners_all: EVERY mpz function of the table on corner-alphabet operands (limbs from {0, 1, 2^63, 2^64-1}, 1..3 limbs, both signs).  Each mpz input position
   in turn runs through all 63 x 2 operands (and zero) while the other inputs hold a seeded corner operand (functions with one mpz input: the full enumeration); scalars
   from the boundary tables; destinations distinct and exactly allocated.  This carries the "corner contents" idea of corners_z (15 two-operand functions, all
   pairs) to the whole API: single-limb shortcuts that look only at the low or the high limb, carries through all-ones limbs, zero low limbs. */
static const mp_limb_t CAL[4] = {0, 1, (mp_limb_t)1 << 63, ~(mp_limb_t)0};
static int corner_op(long k, mp_limb_t *out) {      /* k in 0..83 -> 1..3 limbs, top limb non-zero */
  int l; long cnt;
  for (l = 1; l <= 3; l++) { int i; cnt = 3; for (i = 1; i < l; i++) cnt *= 4;
    if (k < cnt) { long t = k; out[l - 1] = CAL[1 + t % 3]; t /= 3; for (i = l - 2; i >= 0; i--) { out[i] = CAL[t % 4]; t /= 4; } return l; }
    k -= cnt; }
  return 0;
}
static void set_corner(int v, long k, int neg) { mp_limb_t b[4]; int n = corner_op(k, b); char *h = hex_of_limbs(b, n, neg); callf("drv_setz", v, h); free(h); }
void drv_corners_all(int tier, unsigned long seed, const char *extra) {
  shard_t sh = shard_parse(extra); long x = 0; int fi;
  for (fi = 0; fi < api_count; fi++) {
    const api_fn *f = &api_table[fi]; int zin[8], nin = 0, i, pi; 
    if (skip_generic(f) || !want(&sh, f->name) || !strcmp(f->name, "mpz_swap")) continue;
    for (i = 0; i < f->nargs; i++) if (is_z(f->kinds[i]) && is_in(f->kinds[i])) zin[nin++] = i;
    if (nin == 0) continue;
    for (pi = 0; pi < nin; pi++) { long k0;
      for (k0 = 0; k0 < 64; k0 += 12) { long k;
        x++; if (!MINE(sh, x)) continue;
        if (sh.pure && (k0 || pi)) continue;
        rec_reset("corners_all", x, seed);
        for (i = 0; i < 8; i++) callf("mpz_init", i);
        for (k = k0; k < k0 + 12 && k < 64; k++) { int neg;
          for (neg = 0; neg < 2; neg++) { arg_t a[8]; int var[8], nv = 0;
            if (!tier && nin > 1 && neg != (int)((k + pi) & 1)) continue;           /* quick: alternate signs for multi-input functions */
            memset(a, 0, sizeof a);
            for (i = 0; i < f->nargs; i++) { a[i].kind = f->kinds[i]; var[i] = 0;
              if (is_z(f->kinds[i])) { var[i] = nv++;      /* all distinct */
                if (is_in(f->kinds[i])) { if (i == zin[pi]) set_corner(var[i], k, neg); else set_corner(var[i], (long)rnd_below(64), (int)rnd_below(2)); }
                else callf("drv_rndz", var[i], (int)rnd_below(3), 0, (int)rnd_below(2)); }
              else switch (f->kinds[i]) { case K_U: a[i].u = gen_u(f->name, i, 0); break; case K_S: a[i].s = SIS[rnd_below(11)]; break;
                case K_B: a[i].u = gen_b(f->name); break; case K_I: a[i].s = has(f->name, "sizeinbase") ? 2 + (int)rnd_below(61) : (int)rnd_below(30); break;
                case K_D: a[i].d = DS[rnd_below(11)]; break; default: break; } }
            fixups(f, var, a);
            for (i = 0; i < f->nargs; i++) if (is_z(f->kinds[i]) && !is_in(f->kinds[i])) exact_alloc(var[i]);
            call_bound(f, var, a); } }
        for (i = 0; i < 8; i++) callf("mpz_clear", i);
        rec_quiesce();
      } }
  }
}

/* random histories: C04.  Every destination is shrunk to the smallest legal allocation before the call with probability 1/2,
   sources are re-allocated larger or smaller (never below their size), variables are cleared and re-initialised, swapped. */
void drv_hist(int tier, unsigned long seed, const char *extra) {
  shard_t sh = shard_parse(extra); long x, nexec = sh.pure ? 6 : (tier ? 4000 : 480); int steps = sh.pure ? 12 : 40;
  const api_fn *cands[300]; int nc = 0, fi;
  for (fi = 0; fi < api_count; fi++) if (!skip_generic(&api_table[fi]) && want(&sh, api_table[fi].name)) cands[nc++] = &api_table[fi];
  for (x = 0; x < nexec; x++) {
    int i, s, live[6];
    if (!MINE(sh, x)) { int burn; for (burn = 0; burn < 7; burn++) rnd64(); continue; }
    rnd_seed(seed * 1000003UL + x);
    rec_reset("hist", x, seed);
    for (i = 0; i < 8; i++) callf("mpz_init", i);
    for (i = 0; i < 6; i++) { live[i] = 1; callf("drv_rndz", i, gen_limbs((int)rnd_below(sh.pure ? 1 : 3)), (int)rnd_below(NKINDS), (int)rnd_below(2)); }
    for (s = 0; s < steps; s++) {
      int what = (int)rnd_below(10);
      if (what == 0) { int v = (int)rnd_below(6); uint64_t bits = rnd_below(3) == 0 ? rnd_below(400) : (uint64_t)ABSIZ(Zp[v]) * 64 + rnd_below(200);
        callf("mpz_realloc2", v, bits); }                                 /* may truncate the value to 0: documented */
      else if (what == 1) { int v = (int)rnd_below(6); callf("mpz_clear", v); if (rnd_below(2)) callf("mpz_init", v); else callf("mpz_init2", v, rnd_below(300)); }
      else if (what == 2) { callf("mpz_swap", (int)rnd_below(6), (int)rnd_below(6)); }
      else if (what == 3) { int v = (int)rnd_below(6); callf("drv_rndz", v, gen_limbs((int)rnd_below(3)), (int)rnd_below(NKINDS), (int)rnd_below(2)); }
      else {
        const api_fn *f = cands[rnd_below(nc)]; arg_t a[8]; int var[8], used_out[8], no = 0, ok = 1, j;
        memset(a, 0, sizeof a);
        for (i = 0; i < f->nargs; i++) { a[i].kind = f->kinds[i]; var[i] = 0;
          if (is_z(f->kinds[i])) {
            int v = (int)rnd_below(6);
            if (is_out(f->kinds[i])) { for (j = 0; j < no; j++) if (used_out[j] == v) ok = 0; used_out[no++] = v; }
            var[i] = v; }
          else switch (f->kinds[i]) { case K_U: a[i].u = gen_u(f->name, i, 1); break; case K_S: a[i].s = SIS[rnd_below(11)]; break;
            case K_B: a[i].u = gen_b(f->name); break; case K_I: a[i].s = has(f->name, "sizeinbase") ? 2 + (int)rnd_below(61) : (int)rnd_below(30); break;
            case K_D: a[i].d = DS[rnd_below(11)]; break; default: break; } }
        if (!ok && strcmp(f->name, "mpz_swap")) continue;
        /* keep growth bounded */
        for (i = 0; i < f->nargs; i++) if (is_z(f->kinds[i]) && ABSIZ(Zp[var[i]]) > 120) callf("mpz_tdiv_r_2exp", var[i], var[i], (uint64_t)(64 * 40 + rnd_below(64)));
        fixups(f, var, a);
        for (i = 0; i < f->nargs; i++) if (is_z(f->kinds[i])) {
          if (rnd_below(2)) exact_alloc(var[i]);
          else if (rnd_below(3) == 0) callf("mpz_realloc2", var[i], (uint64_t)ABSIZ(Zp[var[i]]) * 64 + 64 * (1 + rnd_below(5))); }
        call_bound(f, var, a);
      }
    }
    for (i = 0; i < 8; i++) callf("mpz_clear", i);
    rec_quiesce();
  }
}

/* ---- alias sweep for rational and float functions (C05: every mpq and mpf function) ---- */
static int is_q(int k) { return k == K_QO || k == K_QI || k == K_QIO; }
static int is_f(int k) { return k == K_FO || k == K_FI || k == K_FIO; }
static int skip_qf(const api_fn *f) {
  int i, nq = 0, nf = 0;
  if (strncmp(f->name, "mpq_", 4) && strncmp(f->name, "mpf_", 4)) return 1;
  if (has(f->name, "init") || has(f->name, "clear") || has(f->name, "_str") || has(f->name, "random") || has(f->name, "set_prec") || has(f->name, "set_default") ||
      has(f->name, "pow_ui") || has(f->name, "get_prec")) return 1;
  for (i = 0; i < f->nargs; i++) { if (is_q(f->kinds[i])) nq++; else if (is_f(f->kinds[i])) nf++;
    else if (!(f->kinds[i] == K_U || f->kinds[i] == K_S || f->kinds[i] == K_B || f->kinds[i] == K_D || f->kinds[i] == K_ZI || f->kinds[i] == K_ZO)) return 1; }
  return nq + nf == 0;
}
static void setq_rand(int i, int vclass) {           /* a canonical rational */
  callf("drv_rndz", 6, gen_limbs(vclass), (int)rnd_below(NKINDS), (int)rnd_below(2)); callf("drv_rndz", 7, 1 + gen_limbs(vclass) / 2, 0, 0);
  if (SIZ(Zp[7]) == 0) callf("mpz_set_ui", 7, (uint64_t)3);
  { int w = (int)rnd_below(5);      /* whole zero limbs at the low end of the denominator (w = 0) or numerator (w = 1): the limb-skipping paths of the 2exp functions */
    if (w < 2 && SIZ(Zp[6]) != 0) { uint64_t sh = 64 * (1 + rnd_below(2)) + (rnd_below(2) ? rnd_below(64) : 0);
      callf("mpz_setbit", w ? 7 : 6, (uint64_t)0); callf("mpz_mul_2exp", w ? 6 : 7, w ? 6 : 7, sh); } }
  callf("mpq_set_z", i, 6); callf("mpq_set_den", i, 7); callf("mpq_canonicalize", i);
}
static void setf_rand(int i, int vclass) {
  mp_limb_t buf[64]; int n = 1 + (int)rnd_below(PREC(Fp[i]) + 1), k; char *h;
  if (n > 60) n = 60; rnd_limbs(buf, n, (int)rnd_below(NKINDS)); if (!buf[n - 1]) buf[n - 1] = 1 + (rnd64() >> 1);
  if (rnd_below(4) == 0) for (k = 0; k < n - 1 && k < 2; k++) buf[k] = 0;
  if (rnd_below(9) == 0) { callf("drv_setf", i, "0", (int64_t)0); return; }
  h = hex_of_limbs(buf, n, (int)rnd_below(2)); callf("drv_setf", i, h, (int64_t)((long)rnd_below(7) - 3)); free(h);
}
void drv_alias_qf(int tier, unsigned long seed, const char *extra) {
  shard_t sh = shard_parse(extra); long x = 0; int fi;
  static const int precs[] = {64, 128, 256, 640};
  for (fi = 0; fi < api_count; fi++) {
    const api_fn *f = &api_table[fi]; int pos[8], np = 0, i, part[8], k, vclass, rep, isF;
    if (skip_qf(f) || !want(&sh, f->name)) continue;
    isF = !strncmp(f->name, "mpf_", 4);
    for (i = 0; i < f->nargs; i++) if (isF ? is_f(f->kinds[i]) : is_q(f->kinds[i])) pos[np++] = i;
    if (np == 0) continue;
    for (i = 0; i < np; i++) part[i] = 0;
    for (;;) {
      int ok = 1, a1, a2, nblocks = 0;
      for (i = 0; i < np; i++) if (part[i] + 1 > nblocks) nblocks = part[i] + 1;
      for (a1 = 0; a1 < np && ok; a1++) for (a2 = a1 + 1; a2 < np; a2++)
        if (part[a1] == part[a2] && is_out(f->kinds[pos[a1]]) && is_out(f->kinds[pos[a2]]) && !has(f->name, "swap")) ok = 0;
      /* vclass 2 (floats): operands that hold MORE limbs than their precision, the documented mpf_set_prec_raw use (a variable set at a high
         precision, lowered, then used as source and destination, restored before mpf_clear) */
      if (ok) for (vclass = 0; vclass < (isF && !has(f->name, "swap") ? 3 : 2); vclass++) for (rep = 0; rep < (vclass == 2 ? (tier ? 20 : 10) : (tier ? 4 : 2)); rep++) {
        arg_t a[8]; int var[8], b, sig, lowered[4] = {0, 0, 0, 0};
        x++; if (!MINE(sh, x)) continue;
        rec_reset("alias_qf", x, seed);
        for (i = 0; i < 8; i++) callf("mpz_init", i);
        for (i = 0; i < 4; i++) { if (isF) callf("mpf_init2", i, (uint64_t)precs[rnd_below(4)]); else callf("mpq_init", i); }
        if (isF) callf("mpq_init", 0); else callf("mpf_init2", 0, (uint64_t)128);
        memset(a, 0, sizeof a); for (i = 0; i < 8; i++) var[i] = 0;
        for (i = 0; i < np; i++) var[pos[i]] = part[i];
        for (b = 0; b < nblocks; b++) {
          /* the relation between the operand's length, the lowered precision and the other operands' lengths selects the path (e.g. how many low limbs
             mpf_div chops and whether quotient and dividend then overlap): enumerated, not drawn -- lowered precision by rep, other operands 1 / 3-4 limbs / any */
          if (isF && vclass == 2 && b > 0 && rep < 10 && rnd_below(4)) { mp_limb_t buf[8]; int n = rep < 5 ? 1 : 3 + (int)rnd_below(2), k; char *h;
            rnd_limbs(buf, n, (int)rnd_below(NKINDS)); for (k = 0; k < n; k++) if (!buf[k]) buf[k] = rnd64() | 1;
            if (n > (int)PREC(Fp[b]) + 1) n = PREC(Fp[b]) + 1;
            h = hex_of_limbs(buf, n, (int)rnd_below(2)); callf("drv_setf", b, h, (int64_t)((long)rnd_below(7) - 3)); free(h); continue; }
          if (isF && vclass == 2 && (b == 0 || rnd_below(3) == 0)) {      /* 20 or 21 full limbs at 1280 bits, then lowered */
            mp_limb_t buf[24]; int n = 20 + (int)rnd_below(2), k; char *h;
            callf("mpf_set_prec", b, (uint64_t)1280);
            rnd_limbs(buf, n, (int)rnd_below(NKINDS)); for (k = 0; k < n; k++) if (!buf[k]) buf[k] = rnd64() | 1;
            h = hex_of_limbs(buf, n, (int)rnd_below(2)); callf("drv_setf", b, h, (int64_t)((long)rnd_below(7) - 3)); free(h);
            { static const int low[] = {1216, 1024, 640, 256, 64}; callf("mpf_set_prec_raw", b, (uint64_t)low[rep % 5]); } lowered[b] = 1;
          } else if (isF) setf_rand(b, vclass == 2 ? (int)rnd_below(2) : vclass); else setq_rand(b, vclass); }
        for (i = 0; i < f->nargs; i++) { a[i].kind = f->kinds[i];
          switch (f->kinds[i]) { case K_U: a[i].u = rnd_below(3) ? UIS[rnd_below(12)] : rnd64() >> rnd_below(64); if (has(f->name, "div_ui") && a[i].u == 0) a[i].u = 3; if (has(f->name, "cmp_ui") && !isF && i == 2 && a[i].u == 0) a[i].u = 1;
              if (has(f->name, "set_ui") && !isF && i == 2 && a[i].u == 0) a[i].u = 1; if (has(f->name, "set_si") && !isF && i == 2 && a[i].u == 0) a[i].u = 1; if (has(f->name, "cmp_si") && !isF && i == 2 && a[i].u == 0) a[i].u = 1; break;
            case K_S: a[i].s = SIS[rnd_below(11)]; break; case K_B: a[i].u = gen_b(f->name); if (has(f->name, "mpf_eq") && a[i].u == 0) a[i].u = 1 + rnd_below(200); break; case K_D: a[i].d = DS[rnd_below(11)]; break;
            case K_ZI: callf("drv_rndz", 5, gen_limbs(vclass), 0, (int)rnd_below(2)); if (has(f->name, "set_den") && SIZ(Zp[5]) == 0) callf("mpz_set_ui", 5, (uint64_t)2); var[i] = 5; break;
            case K_ZO: var[i] = 4; break; default: break; } }
        /* domain: non-zero divisors, non-negative square roots (otherwise the arithmetic signal, which the specification also accepts) */
        if (has(f->name, "sqrt") && isF) { int u = var[pos[np - 1]]; if (SIZ(Fp[u]) < 0) callf("mpf_abs", u, u); }
        sig = 0;
        { ret_t r; for (i = 0; i < f->nargs; i++) if (is_obj_kind(f->kinds[i])) a[i].idx = var[i]; sig = do_call(f, a, &r); if (f->rkind == RT_STR && r.str) rec_free_str(r.str); }
        if (sig) continue;                                   /* execution tainted by the signal: abandoned (next reset) */
        for (b = 0; b < 4; b++) if (lowered[b]) callf("mpf_set_prec_raw", b, (uint64_t)1280);      /* "must be restored before mpf_clear" */
        for (i = 0; i < 8; i++) callf("mpz_clear", i);
        for (i = 0; i < 4; i++) callf(isF ? "mpf_clear" : "mpq_clear", i);
        callf(isF ? "mpq_clear" : "mpf_clear", 0);
        rec_quiesce();
      }
      for (k = np - 1; k > 0; k--) { int mx = 0; for (i = 0; i < k; i++) if (part[i] > mx) mx = part[i]; if (part[k] <= mx) { part[k]++; break; } part[k] = 0; }
      if (k == 0) break;
    }
  }
}

/* ---- random call histories over a pool of rationals and floats (C04/C12/C13: every SEQUENCE of valid calls): 4 rationals, 4 floats of
   different precisions, 4 integers; steps draw any mpq/mpf function of the table with a random binding of variables (aliasing included),
   interleaved with clear/init (floats: a new precision), swap, mpf_set_prec, and fresh operand values.  Rationals are kept canonical as the
   manual requires (functions that store a raw numerator/denominator are followed by mpq_canonicalize). */
void drv_hist_qf(int tier, unsigned long seed, const char *extra) {
  shard_t sh = shard_parse(extra); long x, nexec = sh.pure ? 4 : (tier ? 1500 : 240); int steps = sh.pure ? 10 : 36;
  static const int precs[] = {64, 128, 192, 320, 640};
  const api_fn *cands[200]; int nc = 0, fi;
  for (fi = 0; fi < api_count; fi++) { const api_fn *f = &api_table[fi]; if (!skip_qf(f) && want(&sh, f->name) && !has(f->name, "swap") && !has(f->name, "canonicalize") && !has(f->name, "_self_")) cands[nc++] = f; }
  for (x = 0; x < nexec; x++) {
    int i, s, sig = 0;
    if (!MINE(sh, x)) continue;
    rnd_seed(seed * 1000033UL + x);
    rec_reset("hist_qf", x, seed);
    for (i = 0; i < 8; i++) callf("mpz_init", i);
    for (i = 0; i < 4; i++) { callf("mpq_init", i); callf("mpf_init2", i, (uint64_t)precs[rnd_below(5)]); }
    for (i = 0; i < 4; i++) { setq_rand(i, (int)rnd_below(2)); setf_rand(i, 0); }
    for (s = 0; s < steps && !sig; s++) {
      int what = (int)rnd_below(12);
      if (what == 0) { int v = (int)rnd_below(4); callf("mpq_clear", v); callf("mpq_init", v); setq_rand(v, (int)rnd_below(2)); }
      else if (what == 1) { int v = (int)rnd_below(4); callf("mpf_clear", v); callf("mpf_init2", v, (uint64_t)precs[rnd_below(5)]); setf_rand(v, 0); }
      else if (what == 2) { if (rnd_below(2)) callf("mpq_swap", (int)rnd_below(4), (int)rnd_below(4)); else callf("mpf_swap", (int)rnd_below(4), (int)rnd_below(4)); }
      else if (what == 3) { callf("mpf_set_prec", (int)rnd_below(4), (uint64_t)precs[rnd_below(5)]); }
      else if (what == 4) { if (rnd_below(2)) setq_rand((int)rnd_below(4), (int)rnd_below(2)); else setf_rand((int)rnd_below(4), 0); }
      else {
        const api_fn *f = cands[rnd_below(nc)]; arg_t a[8]; int var[8], used_out[8], no = 0, ok = 1, j, isF = !strncmp(f->name, "mpf_", 4), qraw = -1;
        memset(a, 0, sizeof a);
        for (i = 0; i < f->nargs; i++) { a[i].kind = f->kinds[i]; var[i] = 0;
          if (is_q(f->kinds[i]) || is_f(f->kinds[i])) { int v = (int)rnd_below(4);
            if (is_out(f->kinds[i])) { for (j = 0; j < no; j++) if (used_out[j] == v) ok = 0; used_out[no++] = v; if (is_q(f->kinds[i])) qraw = v; }
            var[i] = v; }
          else switch (f->kinds[i]) {
            case K_U: a[i].u = rnd_below(3) ? UIS[rnd_below(12)] : rnd64() >> rnd_below(64);
              if ((has(f->name, "div_ui") || (!isF && i == 2 && (has(f->name, "set_ui") || has(f->name, "set_si") || has(f->name, "cmp_ui") || has(f->name, "cmp_si")))) && a[i].u == 0) a[i].u = 3; break;
            case K_S: a[i].s = SIS[rnd_below(11)]; break;
            case K_B: a[i].u = gen_b(f->name); if (has(f->name, "mpf_eq") && a[i].u == 0) a[i].u = 1 + rnd_below(200); break;
            case K_D: a[i].d = DS[rnd_below(11)]; break;
            case K_ZI: callf("drv_rndz", 5, gen_limbs((int)rnd_below(2)), 0, (int)rnd_below(2)); if (has(f->name, "set_den") && SIZ(Zp[5]) == 0) callf("mpz_set_ui", 5, (uint64_t)2); var[i] = 5; break;
            case K_ZO: var[i] = 4; break; default: break; } }
        if (!ok) continue;
        if (has(f->name, "sqrt") && isF && !has(f->name, "sqrt_ui")) { int u = var[f->nargs - 1]; if (SIZ(Fp[u]) < 0) callf("mpf_abs", u, u); }
        /* keep sizes bounded: a long rational is replaced by a fresh one */
        for (i = 0; i < 4; i++) if (ABSIZ(mpq_numref(Qp[i])) + ABSIZ(mpq_denref(Qp[i])) > 60) setq_rand(i, 0);
        { ret_t r; for (i = 0; i < f->nargs; i++) if (is_obj_kind(f->kinds[i])) a[i].idx = var[i]; sig = do_call(f, a, &r); if (f->rkind == RT_STR && r.str) rec_free_str(r.str); }
        if (sig) break;                                   /* arithmetic signal (division by zero, root of a negative): the execution is abandoned */
        if (!isF && qraw >= 0 && (has(f->name, "set_num") || has(f->name, "set_den") || has(f->name, "set_ui") || has(f->name, "set_si") || has(f->name, "set_str"))) callf("mpq_canonicalize", qraw);
      }
    }
    if (sig) continue;
    for (i = 0; i < 8; i++) callf("mpz_clear", i);
    for (i = 0; i < 4; i++) { callf("mpq_clear", i); callf("mpf_clear", i); }
    rec_quiesce();
  }
}

/* corners_qf: EVERY mpq and mpf function of the table on corner-alphabet operands (the counterpart of corners_all).  Each rational / float input position in turn
   runs through the corner operands (limbs from {0, 1, 2^63, 2^64-1}, 1..3 limbs, both signs; floats: x exponents -1..3, rationals: numerator over a rotating corner
   denominator, canonicalised by a recorded call) while the other inputs hold a seeded corner operand; scalars CYCLE through the boundary tables; destinations hold
   stale content, two precisions (64 and 128 bits; operands keep up to 3 limbs, so they may be longer than the destination holds).  Single-limb shortcuts, carries out
   of all-ones limbs, low zero limbs and exact cancellation in every function, not only in the two-operand groups of corners_q / corners_f. */
static void setq_corner(int v, long kn, long kd, int neg) { mp_limb_t b[4]; int n; char *hn, *hd;
  n = corner_op(kn % 64, b); hn = hex_of_limbs(b, n, neg); n = corner_op(kd % 63, b);      /* 63 corner operands; index 63 = zero (numerators only) */ hd = hex_of_limbs(b, n, 0);
  callf("drv_setq", v, hn, hd); free(hn); free(hd); callf("mpq_canonicalize", v); }
static void setf_corner(int v, long k, int neg, long e) { mp_limb_t b[4]; int n; char *h;
  k %= 64; n = corner_op(k, b); if (n == 0) { callf("drv_setf", v, "0", (int64_t)0); return; }
  if (n > (int)PREC(Fp[v]) + 1) n = PREC(Fp[v]) + 1;                       /* keep the top limbs that fit (still a corner operand) */
  { mp_limb_t *q = b + (corner_op(k, b) - n); h = hex_of_limbs(q, n, neg); } callf("drv_setf", v, h, (int64_t)e); free(h); }
void drv_corners_qf(int tier, unsigned long seed, const char *extra) {
  shard_t sh = shard_parse(extra); long x = 0; int fi; unsigned long cyc = 0;
  for (fi = 0; fi < api_count; fi++) {
    const api_fn *f = &api_table[fi]; int pin[8], nin = 0, i, pi, isF, pd;
    if (skip_qf(f) || !want(&sh, f->name) || has(f->name, "swap")) continue;
    isF = !strncmp(f->name, "mpf_", 4);
    { const char *fam = opt_val(&sh, "fam"); if (fam && ((fam[0] == 'q') == isF)) continue; }      /* fam=q / fam=f: one family only */
    for (i = 0; i < f->nargs; i++) if ((is_q(f->kinds[i]) || is_f(f->kinds[i])) && is_in(f->kinds[i])) pin[nin++] = i;
    if (nin == 0) continue;
    for (pi = 0; pi < nin; pi++) for (pd = 0; pd < (isF ? 2 : 1); pd++) { long k0;
      for (k0 = 0; k0 < 64; k0 += 6) { long k; int sig = 0;
        x++; if (!MINE(sh, x)) continue;
        if (sh.pure && (k0 || pi || pd)) continue;
        rec_reset("corners_qf", x, seed);
        for (i = 0; i < 8; i++) callf("mpz_init", i);
        for (i = 0; i < 4; i++) { callf("mpq_init", i); callf("mpf_init2", i, (uint64_t)(i == 0 ? (pd ? 128 : 64) : (i == 1 ? 128 : 192))); }
        for (k = k0; k < k0 + 6 && k < 64 && !sig; k++) { int neg, ev;
          for (neg = 0; neg < 2 && !sig; neg++) for (ev = 0; ev < (is_f(f->kinds[pin[pi]]) ? (tier ? 5 : 3) : (tier ? 6 : 3)) && !sig; ev++) { arg_t a[8]; int var[8], nq = 0, nf = 0;
            memset(a, 0, sizeof a);
            for (i = 0; i < f->nargs; i++) { a[i].kind = f->kinds[i]; var[i] = 0;
              if (is_q(f->kinds[i])) { var[i] = nq++;
                if (is_in(f->kinds[i])) { if (i == pin[pi]) setq_corner(var[i], k, (k * 5 + ev * 29 + 3) % 63, neg); else setq_corner(var[i], (long)rnd_below(64), (long)rnd_below(64), (int)rnd_below(2)); }
                else setq_rand(var[i], 0); }
              else if (is_f(f->kinds[i])) { var[i] = nf++;
                if (is_in(f->kinds[i])) { if (i == pin[pi]) setf_corner(var[i], k, neg, (long)(tier ? ev - 1 : ev * 2 - 1)); else setf_corner(var[i], (long)rnd_below(64), (int)rnd_below(2), (long)rnd_below(4) - 1); }
                else setf_rand(var[i], 0); }
              else switch (f->kinds[i]) {
                case K_U: a[i].u = UIS[cyc++ % 12];
                  if ((has(f->name, "div_ui") || (!isF && i == 2 && (has(f->name, "set_ui") || has(f->name, "set_si") || has(f->name, "cmp_ui") || has(f->name, "cmp_si")))) && a[i].u == 0) a[i].u = 3; break;
                case K_S: a[i].s = SIS[cyc++ % 11]; break;
                case K_B: { static const int bb[] = {0, 1, 2, 63, 64, 65, 127, 128, 129, 191, 192, 193, 31}; a[i].u = (uint64_t)bb[cyc++ % 13]; if (has(f->name, "mpf_eq") && a[i].u == 0) a[i].u = 64; } break;
                case K_D: a[i].d = DS[cyc++ % 11]; break;
                case K_ZI: set_corner(5, (long)(cyc++ * 7 % 64), (int)(cyc & 1)); if (has(f->name, "set_den") && SIZ(Zp[5]) == 0) callf("mpz_set_ui", 5, (uint64_t)2); var[i] = 5; break;
                case K_ZO: var[i] = 4; break; default: break; } }
            if (has(f->name, "sqrt") && isF && !has(f->name, "sqrt_ui")) { int u = var[f->nargs - 1]; if (SIZ(Fp[u]) < 0) callf("mpf_abs", u, u); }
            { ret_t r; int qraw = -1; for (i = 0; i < f->nargs; i++) if (is_obj_kind(f->kinds[i])) { a[i].idx = var[i]; if (is_q(f->kinds[i]) && is_out(f->kinds[i])) qraw = var[i]; }
              sig = do_call(f, a, &r); if (f->rkind == RT_STR && r.str) rec_free_str(r.str);
              if (!sig && !isF && qraw >= 0 && (has(f->name, "set_num") || has(f->name, "set_den") || has(f->name, "set_ui") || has(f->name, "set_si") || has(f->name, "set_str"))) callf("mpq_canonicalize", qraw); }
          } }
        if (sig) continue;                                   /* arithmetic signal (division by zero): the execution is abandoned */
        for (i = 0; i < 8; i++) callf("mpz_clear", i);
        for (i = 0; i < 4; i++) { callf("mpq_clear", i); callf("mpf_clear", i); }
        rec_quiesce();
      } }
  }
}

/* scalar_ext: scalar arguments (unsigned long counts, indices, exponents) at the ends of their type, for the functions where such a call is cheap
   and defined: a factor step / root index / bit index / shift count of 2^32, 2^63, ULONG_MAX-1, ULONG_MAX and values next to the operand's own size.
   (The boundary tables of the other drivers stay inside ranges whose results are small; a comparison that wraps at the end of the type never sees them.) */
void drv_scalar_ext(int tier, unsigned long seed, const char *extra) {
  shard_t sh = shard_parse(extra); long x = 0; int vi, j;
  static const uint64_t BIG[] = {0x7fffffffUL, 0x80000000UL, 0xffffffffUL, 0x100000000UL, 0x7fffffffffffffffUL, 0x8000000000000000UL, 0xfffffffffffffffeUL, 0xffffffffffffffffUL};
  static const uint64_t NS[] = {0, 1, 2, 3, 5, 7, 15, 255, 65535, 0xffffffffUL, 0x100000001UL, 0xfffffffffffffffeUL, 0xffffffffffffffffUL, 1000003};
  for (vi = 0; vi < 14; vi++) {
    x++; if (!MINE(sh, x)) continue;
    if (sh.pure && vi > 3) continue;
    rec_reset("scalar_ext", x, seed);
    for (j = 0; j < 5; j++) callf("mpz_init", j);
    for (j = 0; j < 8; j++) { uint64_t n = NS[vi], m = BIG[j];
      /* multifactorial with a step at or beyond n: a single factor (or two) */
      if (m >= n / 4) callf("mpz_mfac_uiui", 0, n, m);      /* at most four factors */
      if (n > 2) { callf("mpz_mfac_uiui", 0, n, n - 1); callf("mpz_mfac_uiui", 0, n, n); if (n < ~(uint64_t)0) callf("mpz_mfac_uiui", 0, n, n + 1); }
      if (m >= n / 2 + 1 && m < n) callf("mpz_mfac_uiui", 0, n, m);
      /* binomials at the ends of k */
      callf("mpz_bin_uiui", 0, m, (uint64_t)0); callf("mpz_bin_uiui", 0, m, (uint64_t)1); callf("mpz_bin_uiui", 0, m, m); callf("mpz_bin_uiui", 0, m, m - 1); if (n < m || n - m <= 2) callf("mpz_bin_uiui", 0, n, m); callf("mpz_bin_uiui", 0, m, (uint64_t)2);
      callf("mpz_set_ui", 1, n); callf("mpz_bin_ui", 0, 1, m > 40 ? (uint64_t)(m % 3) : m); callf("mpz_neg", 1, 1); callf("mpz_bin_ui", 0, 1, (uint64_t)(m % 4));
      /* powers with exponent 0 / 1 of extreme bases */
      callf("mpz_ui_pow_ui", 0, m, (uint64_t)0); callf("mpz_ui_pow_ui", 0, m, (uint64_t)1); callf("mpz_ui_pow_ui", 0, m, (uint64_t)2); callf("mpz_ui_pow_ui", 0, (uint64_t)(n & 1), m); callf("mpz_ui_pow_ui", 0, (uint64_t)0, m);
      /* root index far above the bit length */
      callf("drv_rndz", 1, 1 + (int)rnd_below(3), (int)rnd_below(NKINDS), 0);
      callf("mpz_root", 0, 1, m); callf("mpz_nthroot", 0, 1, m); callf("mpz_rootrem", 0, 2, 1, m); if (m & 1) { callf("mpz_neg", 1, 1); callf("mpz_root", 0, 1, m); callf("mpz_rootrem", 0, 2, 1, m); callf("mpz_neg", 1, 1); }
      callf("mpz_set_ui", 3, n); callf("mpz_root", 0, 3, m);
      /* shift counts and bit indices beyond any operand */
      callf("drv_rndz", 1, 1 + (int)rnd_below(3), (int)rnd_below(NKINDS), (int)(j & 1));
      callf("mpz_tdiv_q_2exp", 0, 1, m); callf("mpz_fdiv_q_2exp", 0, 1, m); callf("mpz_cdiv_q_2exp", 0, 1, m); callf("mpz_tdiv_r_2exp", 0, 1, m);
      callf("mpz_divisible_2exp_p", 1, m); callf("mpz_set", 2, 1); callf("mpz_congruent_2exp_p", 1, 2, m); callf("mpz_set_ui", 2, n); callf("mpz_congruent_2exp_p", 1, 2, m);
      callf("mpz_tstbit", 1, m); callf("mpz_scan0", 1, m); callf("mpz_scan1", 1, m);
      callf("mpz_set_ui", 4, (uint64_t)0); callf("mpz_scan1", 4, m); callf("mpz_scan0", 4, m); callf("mpz_tstbit", 4, m);
      if (SIZ(Zp[1]) < 0) callf("mpz_neg", 1, 1);
      callf("mpz_clrbit", 1, m);                              /* a clear bit of a non-negative value: nothing to do (and nothing to allocate) */
    }
    for (j = 0; j < 5; j++) callf("mpz_clear", j);
    rec_quiesce();
  }
}
