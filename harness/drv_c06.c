/* C06: radix conversion.  Every base 2..62 and -2..-36 (and 0 for input) x sizes on both sides of the get_str / set_str
   basecase, divide-and-conquer and precomputed-power crossovers x contents (b^k - 1 all-maximal digits, b^k, b^k + 1,
   runs, uniform); strings with leading zeros, white space, mixed case, base-0 prefixes, an invalid character at every
   position (short strings) or at seeded positions (long ones); mpn_get_str / mpn_set_str; mpq_set_str / mpq_get_str. */
#include "util.h"
#include <math.h>
static const char A62[] = "0123456789ABCDEFGHIJKLMNOPQRSTUVWXYZabcdefghijklmnopqrstuvwxyz";
static void shrinkz(int i) { callf("mpz_realloc2", i, (uint64_t)(ABSIZ(Zp[i]) ? (uint64_t)ABSIZ(Zp[i]) * 64 : 1)); }
/* value classes for pool var 0 given a target size: how 0 uniform, 1 runs, 2 b^k-1, 3 b^k, 4 b^k+1 with b^k about `limbs` limbs */
static void setval(int limbs, int how, int base, int neg) {
  int ab = base < 0 ? -base : base; if (ab < 2) ab = 10;
  if (how < 2 || limbs == 0) { callf("drv_rndz", 0, limbs, how ? 3 : 0, neg); return; }
  { unsigned long k = (unsigned long)(limbs * 64.0 / (log((double)ab) / log(2.0)));
    callf("mpz_ui_pow_ui", 0, (uint64_t)ab, (uint64_t)k);
    if (how == 2) callf("mpz_sub_ui", 0, 0, (uint64_t)1); else if (how == 4) callf("mpz_add_ui", 0, 0, (uint64_t)1);
    if (neg) callf("mpz_neg", 0, 0); }
}
static void roundtrip(int base) {
  char *s, *t; size_t len, i, j;
  int ab = base < 0 ? -base : base;
  callf("mpz_get_str", (int)base, 0); s = last_ret.str;
  callf("mpz_get_str_buf", (int)base, 0);            /* the same into a caller buffer of exactly mpz_sizeinbase + 2 bytes that ends at a guard page */
  callf("mpz_sizeinbase", 0, ab);
  len = strlen(s);
  /* exactly what was written */
  shrinkz(1); callf("mpz_set_str", 1, s, ab);
  /* decorated: leading white space, leading zeros, embedded white space, case flipped (bases up to 36) */
  t = malloc(2 * len + 40); j = 0;
  t[j++] = ' '; if (rnd64() & 1) t[j++] = '\t';
  i = 0; if (s[0] == '-') { t[j++] = '-'; i = 1; }
  if (rnd64() & 1) { t[j++] = '0'; t[j++] = '0'; }
  for (; i < len; i++) { char c = s[i];
    if (ab <= 36 && (rnd64() & 1)) c = (c >= 'a' && c <= 'z') ? c - 32 : (c >= 'A' && c <= 'Z') ? c + 32 : c;
    t[j++] = c; if (rnd_below(len < 40 ? 5 : 97) == 0) t[j++] = rnd_below(3) ? ' ' : '\n'; }
  t[j] = 0;
  shrinkz(1); callf("mpz_set_str", 1, t, ab);
  /* an invalid character: at every position for short strings, at a few seeded positions for long ones */
  { size_t npos = len <= 12 ? len + 1 : 3, p;
    for (p = 0; p < npos; p++) { size_t pos = len <= 12 ? p : rnd_below(len + 1); char bad;
      if (pos == 0 && s[0] == '-') continue;
      if (pos < len && s[pos] == '-') continue;
      bad = ab <= 36 ? (ab < 36 ? (ab < 10 ? '0' + ab : 'a' + ab - 10) : '#') : (ab < 62 ? A62[ab] : '~');
      if (rnd_below(4) == 0) bad = rnd_below(2) ? '.' : '$';
      memcpy(t, s, pos); t[pos] = bad; memcpy(t + pos + 1, s + pos, len - pos + 1);
      callf("mpz_set_str", 1, t, ab); } }
  free(t); rec_free_str(s);
}
void drv_c06_mpz(int tier, unsigned long seed, const char *extra) {
  shard_t sh = shard_parse(extra); long x = 0; int bi, li, how, j;
  static const int ls_q[] = {0, 1, 2, 9, 10, 11, 15, 16, 17, 40}, ls_p[] = {0, 1, 2, 3};
  const int *ls = sh.pure ? ls_p : ls_q; int nl = sh.pure ? 4 : 10;
  for (bi = -36; bi <= 62; bi++) {
    if (bi > -2 && bi < 2) continue;
    for (li = 0; li < nl; li++) {
      x++; if (!MINE(sh, x)) continue;
      if (sh.pure && (x % 7)) continue;
      if (!tier && !sh.pure && ls[li] > 2 && ((bi + li) % 3)) continue;
      rec_reset("c06_mpz", x, seed);
      for (j = 0; j < 3; j++) callf("mpz_init", j);
      for (how = 0; how < 5; how++) { setval(ls[li], how, bi, how & 1); roundtrip(bi); }
      for (j = 0; j < 3; j++) callf("mpz_clear", j);
      rec_quiesce();
    }
  }
}
/* long strings: digits around the set_str crossovers (SET_STR_DC, SET_STR_PRECOMPUTE are in digits) and large get_str */
void drv_c06_long(int tier, unsigned long seed, const char *extra) {
  shard_t sh = shard_parse(extra); long x = 0; int bi, k, j;
  static const int bases[] = {2, 3, 7, 8, 10, 16, 17, 32, 36, 37, 61, 62, -16, -36, -11};
  static const int digs[] = {660, 667, 668, 669, 700, 1965, 1972, 1973, 1974, 2100, 5000};
  for (bi = 0; bi < 15; bi++) for (k = 0; k < (tier ? 11 : 10); k++) {
    int base = bases[bi], ab = base < 0 ? -base : base, how; double bits = digs[k] * (log((double)ab) / log(2.0));
    x++; if (!MINE(sh, x)) continue;
    if (!tier && ((bi + k) % 2)) continue;
    rec_reset("c06_long", x, seed);
    for (j = 0; j < 3; j++) callf("mpz_init", j);
    for (how = 0; how < 3; how++) {
      /* value with exactly digs[k] digits (b^(d-1) <= v < b^d): b^d - 1, b^(d-1), random in between */
      callf("mpz_ui_pow_ui", 0, (uint64_t)ab, (uint64_t)(how == 1 ? digs[k] - 1 : digs[k]));
      if (how == 0) callf("mpz_sub_ui", 0, 0, (uint64_t)1);
      if (how == 2) { callf("drv_rndz", 1, (int)(bits / 64) > 1 ? (int)(bits / 64) - 1 : 1, 0, 0); callf("mpz_sub", 0, 0, 1); }
      roundtrip(base);
    }
    for (j = 0; j < 3; j++) callf("mpz_clear", j);
    rec_quiesce();
  }
}
/* base 0 prefixes, sign forms, mpq strings */
void drv_c06_misc(int tier, unsigned long seed, const char *extra) {
  shard_t sh = shard_parse(extra); int j; long x;
  static const char *z0[] = {"0", "-0", "00", "0x1f", "0X1F", "-0xdeadBEEF", "0b1011", "0B1", "-0b0", "017", "-0777", "123", "-9", "08", "0b2", "0xg", "1a", "12 34", " 0x 1 f", "0x1f 0", "x1", "b1", "",
                             " ", "-", "--1", "+1", "1-", "1e3", "1.5", "０", "0x00", "007", "9999999999999999999999999999999999999999", "0xffffffffffffffffffffffffffffffffffff", "0b11111111111111111111111111111111111111111111111111111111111111111111"};
  static const char *q0[] = {"1/2", "-3/4", "0/5", "6/4", "10", "-7", "0x10/0x20", "0b11/0b10", "1/ 2", " 1/2", "1/-2", "1/+2", "1//2", "/2", "1/", "a/2", "1/2/3", "017/8", "22/7 ", "-0/1"};
  for (x = 0; x < 2; x++) { if (!MINE(sh, x)) continue;
    rec_reset("c06_misc", x, seed);
    callf("mpz_init", 0); callf("mpq_init", 0);
    if (x == 0) {
      for (j = 0; j < (int)(sizeof z0 / sizeof z0[0]); j++) { static const int bs[] = {0, 10, 16, 2, 8, 36, 37, 62}; int k; for (k = 0; k < 8; k++) callf("mpz_set_str", 0, z0[j], bs[k]); }
      callf("mpz_clear", 0); callf("mpz_init_set_str", 0, "-1234567890123456789012345678901234567890", 10); callf("mpz_clear", 0); callf("mpz_init_set_str", 0, "12x", 10);
    } else {
      for (j = 0; j < (int)(sizeof q0 / sizeof q0[0]); j++) { static const int bs[] = {0, 10, 16, 36, 62}; int k; for (k = 0; k < 5; k++) { callf("mpq_set_str", 0, q0[j], bs[k]); } }
      for (j = 0; j < 40; j++) { int base = j % 2 ? 2 + (int)rnd_below(61) : -(2 + (int)rnd_below(35));
        callf("mpq_set_si", 0, (int64_t)rnd64() >> rnd_below(60), (uint64_t)(rnd64() >> rnd_below(60)) | 1); callf("mpq_canonicalize", 0);
        if (j % 5 == 0) callf("mpq_set_z", 0, 0);
        callf("mpq_get_str_buf", base, 0); callf("mpq_get_str", base, 0); { char *s = last_ret.str; callf("mpq_set_str", 0, s, base < 0 ? -base : base); rec_free_str(s); } }
    }
    callf("mpz_clear", 0); callf("mpq_clear", 0); rec_quiesce(); }
}
void drv_c06_mpn(int tier, unsigned long seed, const char *extra) {
  shard_t sh = shard_parse(extra); long x = 0; int base, li;
  static const int ls[] = {1, 2, 9, 10, 11, 15, 16, 17, 30};
  for (base = 2; base <= 62; base++) for (li = 0; li < (sh.pure ? 2 : 9); li++) {
    mp_size_t n = ls[li], rn; size_t len, i; mp_ptr a, c, r; unsigned char *str; char *txt; int pow2 = (base & (base - 1)) == 0;
    x++; if (!MINE(sh, x)) continue;
    if (sh.pure && x % 9) continue;
    if (!tier && !sh.pure && n > 2 && ((base + li) % 3)) continue;
    rec_reset("c06_mpn", x, seed);
    a = gb_get(0, n, 1); c = gb_get(1, n + 1, 1); r = gb_get(2, n + 3, 1);
    rnd_limbs(a, n, (int)rnd_below(NKINDS)); if (!a[n - 1]) a[n - 1] = 1; MPN_COPY(c, a, n);
    str = malloc(n * 64 + 70); txt = malloc(n * 64 + 70);
    fn_begin("mpn_get_str"); fn_in_limbs("a", a, n); fn_in_int("n", n); fn_in_int("base", base); fn_in_int("pow2", pow2); fn_mid();
    len = mpn_get_str(str, base, c, n);
    for (i = 0; i < len; i++) txt[i] = str[i] < 62 ? A62[str[i]] : '?'; txt[len] = 0;
    fn_out_str("s", txt); fn_out_int("ret", len); fn_out_limbs("after", c, n); fn_end();
    /* and back; also with a leading zero byte */
    { size_t off = rnd64() & 1; unsigned char *in = malloc(len + 2); char *tin = malloc(len + 3); size_t st = 0;
      while (st + 1 < len && str[st] == 0) st++;
      if (off) in[0] = 0; memcpy(in + off, str + st, len - st);
      for (i = 0; i < len - st + off; i++) tin[i] = A62[in[i]]; tin[len - st + off] = 0;
      fn_begin("mpn_set_str"); fn_in_str("s", tin); fn_in_int("base", base); fn_mid();
      gb_fill(r, n + 3); rn = mpn_set_str(r, in, len - st + off, base);
      fn_out_limbs("r", r, rn); fn_out_int("rn", rn); fn_end(); free(in); free(tin); }
    free(str); free(txt);
  }
}
/* R3: replays the strings TLC classified (RadixText with EMIT): file lines "base<TAB>string" -> every parsing entry point */
void drv_c06_replay(int tier, unsigned long seed, const char *extra) {
  shard_t sh = shard_parse(extra); const char *path = opt_val(&sh, "file"); FILE *f; char line[256]; long n = 0;
  if (!path || !(f = fopen(path, "r"))) { fprintf(stderr, "c06_replay: no file\n"); exit(3); }
  rec_reset("c06_replay", sh.k, seed); callf("mpz_init", 0); callf("mpq_init", 0);
  while (fgets(line, sizeof line, f)) { char *tab = strchr(line, '\t'), *nl; int base;
    if (!tab) continue; n++; if (!MINE(sh, n)) continue;
    *tab = 0; base = atoi(line); nl = strchr(tab + 1, '\n'); if (nl) *nl = 0;
    callf("mpz_set_str", 0, tab + 1, base);
    if (n % 7 == 0) callf("mpq_set_str", 0, tab + 1, base);
    if (n % 50 == 0) { callf("mpz_clear", 0); callf("mpz_init_set_str", 0, tab + 1, base); } }
  fclose(f); callf("mpz_clear", 0); callf("mpq_clear", 0); rec_quiesce();
}

/* c06_bigbase: operands whose LIMBS are the constants of the conversion itself.  The basecase divides by big_base = base^chars_per_limb and
   compares limbs with it, so the limb values big_base-1, big_base, big_base+1 (next to 0, 1 and all ones) decide its branches the way B/2 and B-1
   decide those of division: every operand of 2 and 3 limbs over that alphabet, in every base that is not a power of two, is converted by
   mpz_get_str (caller buffer of exactly sizeinbase+2 bytes) and read back; longer operands (basecase up to the get_str DC threshold, and above it)
   carry the constant in their top limbs. */
void drv_c06_bigbase(int tier, unsigned long seed, const char *extra) {
  shard_t sh = shard_parse(extra); long x = 0; int base, j;
  for (base = 3; base <= 62; base++) { mp_limb_t bb, al[6]; int n, idx[3], k, big;
    if ((base & (base - 1)) == 0) continue;
    x++; if (!MINE(sh, x)) continue;
    if (sh.pure && (base % 9)) continue;
    rec_reset("c06_bigbase", x, seed);
    bb = mp_bases[base].big_base;
    al[0] = 0; al[1] = 1; al[2] = bb - 1; al[3] = bb; al[4] = bb + 1; al[5] = ~(mp_limb_t)0;
    for (j = 0; j < 3; j++) callf("mpz_init", j);
    for (n = 2; n <= (sh.pure ? 2 : 3); n++) { int tot = n == 2 ? 36 : 216, t;
      for (t = 0; t < tot; t++) { mp_limb_t v[3]; char *h; int tt = t;
        for (k = 0; k < n; k++) { idx[k] = tt % 6; tt /= 6; v[k] = al[idx[k]]; }
        if (v[n - 1] == 0) continue;
        if (n == 3 && !tier && idx[2] != 3 && idx[1] != 3 && idx[0] != 3 && (t % 3)) continue;      /* quick: all tuples containing big_base, a third of the others */
        h = hex_of_limbs(v, n, t & 1); callf("drv_setz", 0, h); free(h);
        callf("mpz_get_str_buf", base, 0); callf("mpz_get_str", base, 0);
        { char *s = last_ret.str; callf("mpz_set_str", 1, s, base); rec_free_str(s); }
        callf("mpz_sizeinbase", 0, base); } }
    /* longer operands with the constant on top: sizes inside the basecase, at the DC threshold and above */
    for (big = 0; big < (sh.pure ? 0 : 6); big++) { static const int ns[] = {4, 9, 14, 15, 16, 33}; mp_limb_t v[40]; char *h; int d;
      n = ns[big];
      for (d = -1; d <= 1; d++) { rnd_limbs(v, n, (int)rnd_below(NKINDS)); v[n - 1] = bb + d; if (big & 1) v[n - 2] = bb;
        h = hex_of_limbs(v, n, 0); callf("drv_setz", 0, h); free(h);
        callf("mpz_get_str", base, 0); { char *s = last_ret.str; callf("mpz_set_str", 1, s, base); rec_free_str(s); } } }
    for (j = 0; j < 3; j++) callf("mpz_clear", j);
    rec_quiesce();
  }
}
