/* rec.c -- conformance harness core (see rec.h) */
#define _GNU_SOURCE
#include "rec.h"
#include <signal.h>
#include <stdarg.h>
#include <unistd.h>
#include <sys/mman.h>
#include <math.h>

__thread FILE *tr;
static FILE *tr_main;
mpz_t Zp[NZ]; mpq_t Qp[NQ]; mpf_t Fp[NF]; gmp_randstate_t Rp[NR];
int zlive[NZ], qlive[NQ], flive[NF], rlive[NR];
long n_events, n_calls;
ret_t last_ret;
sigjmp_buf rec_jmp; volatile int rec_jmp_armed;
static int alloc_log = 1;
static __thread FILE *tr_real;   /* the real trace while an fn event is being assembled in memory */
static __thread char last_begin[512];

/* ------------------------------------------------------------------ */
/* recording allocator: ids, canaries, always-moving realloc, poison    */
#define CAN 64
#define CANBYTE 0xC5
typedef struct blk { void *p; size_t sz; long id; int priv; void *map; size_t maplen; struct blk *next; } blk;
/* fence mode (env HX_FENCE): every block is its own mapping between two inaccessible pages and alternately starts right after the
   low page or ends right at the high one, so that a READ or write one limb outside a block faults (the canaries only see writes) */
static volatile int ro_active;      /* source operands are mapped read-only right now (HX_ROSRC, see do_call) */
static int fence_mode = -1; static long fence_pg; static void *last_map; static size_t last_maplen; static unsigned long fence_flip;
#define HB 4096
static blk *htab[HB];
static long next_id = 0;
static long live_blocks = 0;
static unsigned hidx(void *p) { return (unsigned)(((uintptr_t)p >> 4) * 2654435761u) % HB; }
static blk *blk_find(void *p, int remove) {
  unsigned h = hidx(p); blk **pp = &htab[h];
  for (; *pp; pp = &(*pp)->next) if ((*pp)->p == p) { blk *b = *pp; if (remove) *pp = b->next; return b; }
  return NULL;
}
static void blk_add(void *p, size_t sz, long id) {
  blk *b = malloc(sizeof *b); unsigned h = hidx(p);
  b->p = p; b->sz = sz; b->id = id; b->priv = !alloc_log; b->map = last_map; b->maplen = last_maplen; last_map = NULL; b->next = htab[h]; htab[h] = b;
}
static void *raw_new(size_t n) {
  unsigned char *r;
  if (fence_mode < 0) { fence_mode = getenv("HX_FENCE") ? 1 : 0; fence_pg = sysconf(_SC_PAGESIZE); }
  if (fence_mode) {
    size_t n8 = (n + 7) & ~(size_t)7, body = ((n8 + fence_pg - 1) / fence_pg) * fence_pg; unsigned char *m;
    if (!body) body = fence_pg;
    m = mmap(NULL, body + 2 * fence_pg, PROT_READ | PROT_WRITE, MAP_PRIVATE | MAP_ANONYMOUS, -1, 0);
    if (m == MAP_FAILED) { fprintf(stderr, "harness: mmap failed\n"); _exit(3); }
    mprotect(m, fence_pg, PROT_NONE); mprotect(m + fence_pg + body, fence_pg, PROT_NONE);
    memset(m + fence_pg, 0xA5, body); last_map = m; last_maplen = body + 2 * fence_pg;
    return (fence_flip++ & 1) ? m + fence_pg : m + fence_pg + body - n8;
  }
  r = malloc(n + 2 * CAN);
  if (!r) { fprintf(stderr, "harness: out of memory\n"); _exit(3); }
  memset(r, CANBYTE, CAN); memset(r + CAN, 0xA5, n); memset(r + CAN + n, CANBYTE, CAN);
  return r + CAN;
}
static void raw_del(blk *b) { if (b->map) munmap(b->map, b->maplen); else free((unsigned char *)b->p - CAN); }
static int canary_ok(void *p, size_t n) {
  unsigned char *r = (unsigned char *)p - CAN; size_t i;
  if (fence_mode > 0) return 1;
  for (i = 0; i < CAN; i++) if (r[i] != CANBYTE || r[CAN + n + i] != CANBYTE) return 0;
  return 1;
}
static void direct_alloc_report(void);
static void guard(const char *why, long id) {
  fprintf(tr, "{\"e\":\"guard\",\"why\":\"%s\",\"id\":%ld}\n", why, id); n_events++;
}
static void *ra_alloc(size_t n) {
  void *p = raw_new(n); long id = ++next_id;
  blk_add(p, n, id); live_blocks++;
  if (alloc_log) { fprintf(tr, "{\"e\":\"al\",\"id\":%ld,\"sz\":%zu}\n", id, n); n_events++; }
  return p;
}
static void ra_free(void *p, size_t n) {
  blk *b = blk_find(p, 1);
  if (!b) { guard("free of unknown pointer", -1); return; }
  if (!canary_ok(p, b->sz)) guard("canary damaged (seen at free)", b->id);
  if (alloc_log) { fprintf(tr, "{\"e\":\"fr\",\"id\":%ld,\"sz\":%zu}\n", b->id, n); n_events++; }
  memset(p, 0xDD, b->sz);
  raw_del(b); free(b); live_blocks--;
}
static void *ra_realloc(void *p, size_t old, size_t new) {
  blk *b = blk_find(p, 1); void *q; long nid;
  if (!b) { guard("realloc of unknown pointer", -1); return raw_new(new); }
  if (!canary_ok(p, b->sz)) guard("canary damaged (seen at realloc)", b->id);
  q = raw_new(new); nid = ++next_id;
  memcpy(q, p, b->sz < new ? b->sz : new);
  if (alloc_log) { fprintf(tr, "{\"e\":\"re\",\"id\":%ld,\"old\":%zu,\"nid\":%ld,\"new\":%zu}\n", b->id, old, nid, new); n_events++; }
  memset(p, 0xDD, b->sz);
  { void *km = last_map; size_t kl = last_maplen; raw_del(b); free(b); last_map = km; last_maplen = kl; }
  blk_add(q, new, nid);
  return q;
}
static long blk_id_of(void *p) { blk *b = blk_find(p, 0); return b ? b->id : -1; }
/* check every live block's canaries (called at each call end) */
static void canary_sweep(void) {
  int h; blk *b; if (rec_threaded) return;
  for (h = 0; h < HB; h++) for (b = htab[h]; b; b = b->next) if (!canary_ok(b->p, b->sz)) guard("canary damaged (seen at call end)", b->id);
}
long rec_live_blocks(void) { return live_blocks; }
int rec_ret_caller_buf;      /* set by a call template: the returned string lives in the caller's (guarded) buffer, not in a heap block */
void rec_alloc_logging(int on) { alloc_log = on; }
static void heap_forget(void) {
  int h; live_blocks = 0;
  for (h = 0; h < HB; h++) { blk *b = htab[h], *keep = NULL; while (b) { blk *n = b->next; if (b->priv) { b->next = keep; keep = b; live_blocks++; } else free(b); b = n; } htab[h] = keep; }   /* blocks themselves are leaked deliberately (an execution was abandoned) */
}

/* ------------------------------------------------------------------ */
static void on_signal(int sig) {
  if (sig == SIGFPE && rec_jmp_armed) { rec_jmp_armed = 0; siglongjmp(rec_jmp, sig); }
  /* anything else is fatal: log and leave so the trace is not truncated mid-line */
  if (tr_real && tr != tr_real) tr = tr_real;
  if (rec_threaded && tr_main) tr = tr_main;          /* a worker thread died: report it in the main trace */
  fprintf(tr, "{\"e\":\"crash\",\"sig\":%d,\"rosrc\":%d,\"in\":", sig, (int)ro_active); j_str(last_begin); fprintf(tr, "}\n");      /* rosrc = 1: source operands were mapped read-only */
  fflush(tr); _exit(0);
}
/* VERIF_EV hooks of the library (guard MPIR_VERIF): one "hk" event per distinct (tag, a, b, c, d) per call */
#ifdef MPIR_VERIF
extern void (*__mpir_verif_ev) (const char *tag, long a, long b, long c, long d);
#endif
#define HKN 128
static unsigned long hk_seen[HKN]; static int hk_n;
static void hk_reset(void) { hk_n = 0; }
static void hook_cb(const char *tag, long a, long b, long c, long d) {
  FILE *o = (tr_real && tr != tr_real) ? tr_real : tr; unsigned long h = 1469598103934665603UL; const char *p; int i;
  if (!o || rec_threaded || !alloc_log) return;
  for (p = tag; *p; p++) h = (h ^ (unsigned char)*p) * 1099511628211UL;
  h = (h ^ (unsigned long)a) * 1099511628211UL; h = (h ^ (unsigned long)b) * 1099511628211UL; h = (h ^ (unsigned long)c) * 1099511628211UL; h = (h ^ (unsigned long)d) * 1099511628211UL;
  for (i = 0; i < hk_n; i++) if (hk_seen[i] == h) return;
  if (hk_n < HKN) hk_seen[hk_n++] = h; else return;
  fprintf(o, "{\"e\":\"hk\",\"tag\":\"%s\",\"a\":%ld,\"b\":%ld,\"c\":%ld,\"d\":%ld}\n", tag, a, b, c, d); n_events++;
}
void rec_init(const char *path) {
  struct sigaction sa;
  tr = path && strcmp(path, "-") ? fopen(path, "w") : stdout;
  if (!tr) { perror(path); exit(3); }
  setvbuf(tr, NULL, _IOFBF, 1 << 20); tr_main = tr;
  mp_set_memory_functions(ra_alloc, ra_realloc, ra_free);
#ifdef MPIR_VERIF
  __mpir_verif_ev = hook_cb;
#endif
  memset(&sa, 0, sizeof sa); sa.sa_handler = on_signal; sa.sa_flags = SA_NODEFER;
  sigaction(SIGFPE, &sa, NULL); sigaction(SIGSEGV, &sa, NULL); sigaction(SIGABRT, &sa, NULL); sigaction(SIGBUS, &sa, NULL); sigaction(SIGILL, &sa, NULL);
}
void rec_finish(void) { fflush(tr); if (tr != stdout) fclose(tr); }

/* ------------------------------------------------------------------ */
static uint64_t rs[4];
static uint64_t rotl(uint64_t x, int k) { return (x << k) | (x >> (64 - k)); }
void rnd_seed(uint64_t s) { int i; for (i = 0; i < 4; i++) { s += 0x9e3779b97f4a7c15ULL; uint64_t z = s; z = (z ^ (z >> 30)) * 0xbf58476d1ce4e5b9ULL; z = (z ^ (z >> 27)) * 0x94d049bb133111ebULL; rs[i] = z ^ (z >> 31); } }
uint64_t rnd64(void) { uint64_t r = rotl(rs[1] * 5, 7) * 9, t = rs[1] << 17; rs[2] ^= rs[0]; rs[3] ^= rs[1]; rs[1] ^= rs[2]; rs[0] ^= rs[3]; rs[2] ^= t; rs[3] = rotl(rs[3], 45); return r; }
uint64_t rnd_below(uint64_t n) { return n ? rnd64() % n : 0; }
void rnd_limbs(mp_ptr p, mp_size_t n, int kind) {
  mp_size_t i;
  switch (kind) {
  case 0: for (i = 0; i < n; i++) p[i] = rnd64(); break;
  case 1: for (i = 0; i < n; i++) p[i] = ~(mp_limb_t)0; break;
  case 2: for (i = 0; i < n; i++) p[i] = 0; p[rnd_below(n)] = (mp_limb_t)1 << rnd_below(64); break;
  case 3: { /* long runs of 0s and 1s */
      int bit = rnd64() & 1; mp_size_t pos = 0, total = n * 64;
      for (i = 0; i < n; i++) p[i] = 0;
      while (pos < total) { mp_size_t run = 1 + rnd_below(rnd64() % 3 ? 200 : 17); mp_size_t e = pos + run > total ? total : pos + run;
        if (bit) for (i = pos; i < e; i++) p[i / 64] |= (mp_limb_t)1 << (i % 64);
        pos = e; bit = !bit; }
      break; }
  case 4: for (i = 0; i < n; i++) p[i] = (rnd64() % 4) ? 0 : rnd64(); break;
  case 5: { static const mp_limb_t c[] = {0, 1, 2, ~(mp_limb_t)0, ~(mp_limb_t)0 - 1, (mp_limb_t)1 << 63, ((mp_limb_t)1 << 63) - 1, ((mp_limb_t)1 << 63) + 1, (mp_limb_t)1 << 32, 0xffffffffUL};
      for (i = 0; i < n; i++) p[i] = c[rnd_below(10)]; break; }
  case 6: for (i = 0; i < n; i++) p[i] = rnd64(); p[n - 1] |= (mp_limb_t)1 << 63; if (n > 1 && (rnd64() & 1)) p[n - 2] = ~(mp_limb_t)0; break;
  }
}

/* ------------------------------------------------------------------ */
void j_hex_limbs(const mp_limb_t *p, mp_size_t n) {
  while (n > 0 && p[n - 1] == 0) n--;
  if (n == 0) { fputs("\"0\"", tr); return; }
  fprintf(tr, "\"%lx", (unsigned long)p[n - 1]);
  for (n -= 2; n >= 0; n--) fprintf(tr, "%016lx", (unsigned long)p[n]);
  fputc('"', tr);
}
void j_hex_signed(const mp_limb_t *p, mp_size_t sz) {
  mp_size_t n = sz < 0 ? -sz : sz;
  while (n > 0 && p[n - 1] == 0) n--;
  if (n == 0) { fputs("\"0\"", tr); return; }
  fprintf(tr, "\"%s%lx", sz < 0 ? "-" : "", (unsigned long)p[n - 1]);
  for (n -= 2; n >= 0; n--) fprintf(tr, "%016lx", (unsigned long)p[n]);
  fputc('"', tr);
}
void j_hex_u64(uint64_t v) { fprintf(tr, "\"%lx\"", (unsigned long)v); }
void j_hex_s64(int64_t v) { if (v < 0) fprintf(tr, "\"-%lx\"", (unsigned long)(-(uint64_t)v)); else fprintf(tr, "\"%lx\"", (unsigned long)v); }
void j_strn(const char *s, size_t n) {
  size_t i; fputc('"', tr);
  for (i = 0; i < n; i++) { unsigned char c = s[i];
    if (c == '"' || c == '\\') { fputc('\\', tr); fputc(c, tr); }
    else if (c < 0x20 || c >= 0x7f) fprintf(tr, "\\u%04x", c);
    else fputc(c, tr); }
  fputc('"', tr);
}
void j_str(const char *s) { j_strn(s, strlen(s)); }
void j_double(double d) {
  uint64_t b; memcpy(&b, &d, 8);
  fprintf(tr, "[%d,%d,%d,%d]", (int)(b >> 63), (int)((b >> 52) & 0x7ff), (int)((b >> 26) & 0x3ffffff), (int)(b & 0x3ffffff));
}

/* ------------------------------------------------------------------ */
static void hk_reset(void);
static __thread int fn_first;
static __thread int fn_gw_done;
int rec_threaded;      /* threaded drivers: no global-write snapshots, no allocator table sweeps */
void gw_snapshot(void); void gw_diff_emit(void);
/* an fn event is assembled in memory and written at fn_end, so that allocator events raised by the
   call itself (temporaries) are not interleaved with the line */
static __thread char *fn_buf; static __thread size_t fn_len;
void fn_begin(const char *f) {
  tr_real = tr; fn_buf = NULL; fn_len = 0; tr = open_memstream(&fn_buf, &fn_len); fn_gw_done = 0;
  fprintf(tr, "{\"e\":\"fn\",\"f\":\"%s\",\"i\":{", f); fn_first = 1; snprintf(last_begin, sizeof last_begin, "fn %s", f); }
static void fn_key(const char *k) { if (!fn_first) fputc(',', tr); fn_first = 0; fprintf(tr, "\"%s\":", k); }
void fn_in_limbs(const char *k, const mp_limb_t *p, mp_size_t n) { fn_key(k); j_hex_limbs(p, n); }
void fn_in_int(const char *k, long v) { fn_key(k); fprintf(tr, "%ld", v); }
void fn_in_u64(const char *k, uint64_t v) { fn_key(k); j_hex_u64(v); }
void fn_in_str(const char *k, const char *s) { fn_key(k); j_str(s); }
void fn_in_raw(const char *k, const char *json) { fn_key(k); fputs(json, tr); }
/* inputs done: from here until fn_out_* the real trace receives the allocator events of the call */
static __thread FILE *fn_mem;
void fn_mid(void) { fputs("},\"o\":{", tr); fn_first = 1; fn_mem = tr; tr = tr_real; gw_snapshot(); hk_reset(); }
static void fn_resume(void) { if (tr == tr_real && fn_mem) { if (!fn_gw_done) { gw_diff_emit(); fn_gw_done = 1; } tr = fn_mem; } }
void fn_out_limbs(const char *k, const mp_limb_t *p, mp_size_t n) { fn_resume(); fn_key(k); j_hex_limbs(p, n); }
void fn_out_int(const char *k, long v) { fn_resume(); fn_key(k); fprintf(tr, "%ld", v); }
void fn_out_raw(const char *k, const char *json) { fn_resume(); fn_key(k); fputs(json, tr); }
void fn_out_u64(const char *k, uint64_t v) { fn_resume(); fn_key(k); j_hex_u64(v); }
void fn_out_str(const char *k, const char *s) { fn_resume(); fn_key(k); j_str(s); }
void fn_out_strn(const char *k, const char *s, size_t n) { fn_resume(); fn_key(k); j_strn(s, n); }
void fn_end(void) {
  fn_resume(); fputs("}}\n", tr); fclose(tr); tr = tr_real; fn_mem = NULL;
  canary_sweep();
  fwrite(fn_buf, 1, fn_len, tr); free(fn_buf); tr_real = NULL; n_events++; n_calls++;
  direct_alloc_report();
}

/* ------------------------------------------------------------------ */
/* shadows */
typedef struct { int live; int alloc; int size; mp_limb_t *ptr; mp_limb_t *copy; mp_size_t ncopy; } zsh;
typedef struct { int live; int prec; int size; long exp; mp_limb_t *ptr; mp_limb_t *copy; mp_size_t ncopy; } fsh;
static zsh Zs[NZ], Qn[NQ], Qd[NQ]; static fsh Fs[NF];

static void zsh_take(zsh *s, mpz_srcptr z, int live) {
  mp_size_t n;
  s->live = live; if (!live) return;
  n = ABSIZ(z); s->alloc = ALLOC(z); s->size = SIZ(z); s->ptr = PTR(z);
  if (n > s->ncopy) { s->copy = realloc(s->copy, n * sizeof(mp_limb_t)); s->ncopy = n; }
  if (n > 0 && n <= ALLOC(z)) memcpy(s->copy, PTR(z), n * sizeof(mp_limb_t));
}
static int zsh_changed(zsh *s, mpz_srcptr z, int live) {
  mp_size_t n;
  if (s->live != live) return 1; if (!live) return 0;
  if (s->alloc != ALLOC(z) || s->size != SIZ(z) || s->ptr != PTR(z)) return 1;
  n = ABSIZ(z); return n > 0 && memcmp(s->copy, PTR(z), n * sizeof(mp_limb_t)) != 0;
}
static void zrec_emit(mpz_srcptr z) {
  mp_size_t n = ABSIZ(z);
  fputs("\"v\":", tr);
  if (n > ALLOC(z)) fputs("\"0\"", tr); else j_hex_signed(PTR(z), SIZ(z));
  fprintf(tr, ",\"sz\":%d,\"al\":%d,\"blk\":%ld", (int)SIZ(z), (int)ALLOC(z), blk_id_of(PTR(z)));
}
static void fsh_take(fsh *s, mpf_srcptr f, int live) {
  mp_size_t n;
  s->live = live; if (!live) return;
  n = ABSIZ(f); s->prec = PREC(f); s->size = SIZ(f); s->exp = EXP(f); s->ptr = PTR(f);
  if (n > s->ncopy) { s->copy = realloc(s->copy, n * sizeof(mp_limb_t)); s->ncopy = n; }
  if (n > 0) memcpy(s->copy, PTR(f), n * sizeof(mp_limb_t));
}
static int fsh_changed(fsh *s, mpf_srcptr f, int live) {
  mp_size_t n;
  if (s->live != live) return 1; if (!live) return 0;
  if (s->prec != PREC(f) || s->size != SIZ(f) || s->exp != EXP(f) || s->ptr != PTR(f)) return 1;
  n = ABSIZ(f); return n > 0 && memcmp(s->copy, PTR(f), n * sizeof(mp_limb_t)) != 0;
}
void pool_sync(void) {
  int i;
  for (i = 0; i < NZ; i++) zsh_take(&Zs[i], Zp[i], zlive[i]);
  for (i = 0; i < NQ; i++) { zsh_take(&Qn[i], mpq_numref(Qp[i]), qlive[i]); zsh_take(&Qd[i], mpq_denref(Qp[i]), qlive[i]); }
  for (i = 0; i < NF; i++) fsh_take(&Fs[i], Fp[i], flive[i]);
}
/* emits ,"ch":[...] and refreshes shadows */
static void pool_diff_emit(void) {
  int i, first = 1;
  fputs(",\"ch\":[", tr);
  for (i = 0; i < NZ; i++) if (zsh_changed(&Zs[i], Zp[i], zlive[i])) {
    if (!first) fputc(',', tr); first = 0;
    fprintf(tr, "{\"k\":\"z\",\"i\":%d,\"live\":%d", i, zlive[i]);
    if (zlive[i]) { fputc(',', tr); zrec_emit(Zp[i]); }
    fputc('}', tr); zsh_take(&Zs[i], Zp[i], zlive[i]);
  }
  for (i = 0; i < NQ; i++) if (zsh_changed(&Qn[i], mpq_numref(Qp[i]), qlive[i]) || zsh_changed(&Qd[i], mpq_denref(Qp[i]), qlive[i])) {
    if (!first) fputc(',', tr); first = 0;
    fprintf(tr, "{\"k\":\"q\",\"i\":%d,\"live\":%d", i, qlive[i]);
    if (qlive[i]) { fputs(",\"n\":{", tr); zrec_emit(mpq_numref(Qp[i])); fputs("},\"d\":{", tr); zrec_emit(mpq_denref(Qp[i])); fputc('}', tr); }
    fputc('}', tr); zsh_take(&Qn[i], mpq_numref(Qp[i]), qlive[i]); zsh_take(&Qd[i], mpq_denref(Qp[i]), qlive[i]);
  }
  for (i = 0; i < NF; i++) if (fsh_changed(&Fs[i], Fp[i], flive[i])) {
    if (!first) fputc(',', tr); first = 0;
    fprintf(tr, "{\"k\":\"f\",\"i\":%d,\"live\":%d", i, flive[i]);
    if (flive[i]) { fputs(",\"v\":", tr); j_hex_signed(PTR(Fp[i]), SIZ(Fp[i]));
      fprintf(tr, ",\"sz\":%d,\"exp\":%ld,\"prec\":%d,\"blk\":%ld", (int)SIZ(Fp[i]), (long)EXP(Fp[i]), (int)PREC(Fp[i]), blk_id_of(PTR(Fp[i]))); }
    fputc('}', tr); fsh_take(&Fs[i], Fp[i], flive[i]);
  }
  fputc(']', tr);
}

void rec_reset(const char *drv, long exec_id, unsigned long seed) {
  int i;
  /* a driver whose shape loop does not terminate must not fill the disk: hard cap on the events of one process */
  { static long cap; if (!cap) { const char *e = getenv("VERIF_MAX_EVENTS"); cap = e ? atol(e) : 4000000L; }
    if (n_events > cap) { fprintf(stderr, "harness: more than %ld events in one process (driver %s): runaway driver, aborting\n", cap, drv); if (tr) fflush(tr); _exit(5); } }
  heap_forget();
  mpf_set_default_prec(64);      /* documented global: back to its initial value, as MPIR!Reset assumes */
  for (i = 0; i < NZ; i++) zlive[i] = 0; for (i = 0; i < NQ; i++) qlive[i] = 0;
  for (i = 0; i < NF; i++) flive[i] = 0; for (i = 0; i < NR; i++) rlive[i] = 0;
  pool_sync();
  fprintf(tr, "{\"e\":\"reset\",\"drv\":\"%s\",\"x\":%ld,\"seed\":\"%lx\"}\n", drv, exec_id, seed); n_events++;
}
void rec_quiesce(void) { fprintf(tr, "{\"e\":\"quiesce\"}\n"); n_events++; }

const api_fn *api_find(const char *name) {
  int i; for (i = 0; i < api_count; i++) if (!strcmp(api_table[i].name, name)) return &api_table[i];
  fprintf(stderr, "harness: unknown api function %s\n", name); exit(3);
}
static void emit_args(const api_fn *f, arg_t *a) {
  int i;
  fputs("\"a\":[", tr);
  for (i = 0; i < f->nargs; i++) {
    if (i) fputc(',', tr);
    switch (f->kinds[i]) {
    case K_U: case K_B: case K_SZ: j_hex_u64(a[i].u); break;
    case K_S: j_hex_s64(a[i].s); break;
    case K_I: fprintf(tr, "%ld", (long)a[i].s); break;
    case K_D: j_double(a[i].d); break;
    case K_STR: j_str(a[i].str); break;
    default: fprintf(tr, "%d", a[i].idx);
    }
  }
  fputc(']', tr);
}
/* read-only sources (env HX_ROSRC, fence mode only): while a call runs, the limb block of every INPUT-ONLY mpz/mpq/mpf argument that is not also an
   output of the same call is mapped read-only, so that a write to a source operand -- even one that is undone before the call returns, invisible to any
   sequential comparison -- is a crash event.  (C15: threads may share source objects, so such a write is a data race; C05: inputs are not modified.) */
static int rosrc_mode = -1;
static int ro_collect(const api_fn *f, arg_t *a, blk **out) {
  void *outs[16]; int no = 0, n = 0, i, j;
  if (rosrc_mode < 0) rosrc_mode = (getenv("HX_ROSRC") && getenv("HX_FENCE")) ? 1 : 0;
  if (!rosrc_mode || fence_mode <= 0 || rec_threaded) return 0;
  for (i = 0; i < f->nargs; i++) switch (f->kinds[i]) {
    case K_ZO: case K_ZIO: outs[no++] = PTR(Zp[a[i].idx]); break;
    case K_QO: case K_QIO: outs[no++] = PTR(mpq_numref(Qp[a[i].idx])); outs[no++] = PTR(mpq_denref(Qp[a[i].idx])); break;
    case K_FO: case K_FIO: outs[no++] = PTR(Fp[a[i].idx]); break; default: break; }
  for (i = 0; i < f->nargs; i++) { void *ins[2]; int ni = 0, k;
    switch (f->kinds[i]) {
      case K_ZI: if (zlive[a[i].idx]) ins[ni++] = PTR(Zp[a[i].idx]); break;
      case K_QI: if (qlive[a[i].idx]) { ins[ni++] = PTR(mpq_numref(Qp[a[i].idx])); ins[ni++] = PTR(mpq_denref(Qp[a[i].idx])); } break;
      case K_FI: if (flive[a[i].idx]) ins[ni++] = PTR(Fp[a[i].idx]); break; default: break; }
    for (k = 0; k < ni; k++) { blk *b; int skip = 0;
      for (j = 0; j < no; j++) if (outs[j] == ins[k]) skip = 1;
      if (skip || !(b = blk_find(ins[k], 0)) || !b->map) continue;
      for (j = 0; j < n; j++) if (out[j] == b) skip = 1;
      if (!skip && n < 8) out[n++] = b; } }
  return n;
}
static void ro_set(blk **bs, int n, int prot) { int i; for (i = 0; i < n; i++) mprotect((char *)bs[i]->map + fence_pg, bs[i]->maplen - 2 * fence_pg, prot); }
int do_call(const api_fn *f, arg_t *a, ret_t *r) {
  int sig; blk *ro[8]; int nro = (strncmp(f->name, "mp", 2) || strstr(f->name, "clear") || strstr(f->name, "init") || strstr(f->name, "realloc") || strstr(f->name, "limbs") || strstr(f->name, "swap") || strstr(f->name, "set_prec")) ? 0 : ro_collect(f, a, ro);
  fprintf(tr, "{\"e\":\"begin\",\"f\":\"%s\",", f->name); emit_args(f, a); fputs("}\n", tr); n_events++;
  snprintf(last_begin, sizeof last_begin, "%s", f->name);
  memset(r, 0, sizeof *r); r->kind = f->rkind;
  gw_snapshot(); hk_reset();
  rec_jmp_armed = 1;
  sig = sigsetjmp(rec_jmp, 1);
  if (sig == 0) { if (nro) { ro_active = 1; ro_set(ro, nro, PROT_READ); } f->glue(a, r); rec_jmp_armed = 0; }
  if (nro) { ro_set(ro, nro, PROT_READ | PROT_WRITE); ro_active = 0; }
  canary_sweep(); gw_diff_emit();
  fprintf(tr, "{\"e\":\"end\",\"f\":\"%s\",", f->name); emit_args(f, a);
  fputs(",\"x\":", tr); j_hex_s64(sig ? 0 : r->s);
  if (sig) fprintf(tr, ",\"sig\":\"FPE\",\"ret\":0");
  else {
    fputs(",\"sig\":\"\",\"ret\":", tr);
    switch (f->rkind) {
    case RT_VOID: fputs("0", tr); break;
    case RT_INT: fprintf(tr, "%ld", (long)r->s); break;
    case RT_U: case RT_B: case RT_SZ: j_hex_u64(r->u); break;
    case RT_S: j_hex_s64(r->s); break;
    case RT_D: j_double(r->d); break;
    case RT_STR: if (r->str) { fputs("{\"s\":", tr); j_str(r->str); fprintf(tr, ",\"blk\":%ld}", rec_ret_caller_buf ? -2L : blk_id_of(r->str)); } else fputs("{\"s\":\"\",\"blk\":-2}", tr);
      rec_ret_caller_buf = 0; break;
    }
  }
  pool_diff_emit();
  fputs("}\n", tr); n_events++; n_calls++;
  direct_alloc_report();
  last_ret = *r;
  return sig;
}
int callf(const char *name, ...) {
  const api_fn *f = api_find(name); arg_t a[8]; ret_t r; va_list ap; int i;
  va_start(ap, name);
  for (i = 0; i < f->nargs; i++) {
    memset(&a[i], 0, sizeof a[i]); a[i].kind = f->kinds[i];
    switch (f->kinds[i]) {
    case K_U: case K_B: case K_SZ: a[i].u = va_arg(ap, uint64_t); break;
    case K_S: a[i].s = va_arg(ap, int64_t); break;
    case K_I: a[i].s = va_arg(ap, int); break;
    case K_D: a[i].d = va_arg(ap, double); break;
    case K_STR: a[i].str = va_arg(ap, const char *); break;
    default: a[i].idx = va_arg(ap, int);
    }
  }
  va_end(ap);
  return do_call(f, a, &r);
}
void rec_free_str(char *s) {
  void (*ff)(void *, size_t); size_t n = strlen(s) + 1;
  mp_get_memory_functions(NULL, NULL, &ff);
  fprintf(tr, "{\"e\":\"hfree\",\"blk\":%ld,\"sz\":%zu}\n", blk_id_of(s), n); n_events++;
  { int keep = alloc_log; alloc_log = 0; ff(s, n); alloc_log = keep; }
}
void rec_note(const char *fmt, ...) { va_list ap; va_start(ap, fmt); vfprintf(stderr, fmt, ap); va_end(ap); }

size_t rec_block_size(void *p) { blk *b = p ? blk_find(p, 0) : NULL; return b ? b->sz : 0; }

/* ------------------------------------------------------------------ */
/* global-write detector: every writable chunk the library contributes to this (non-PIE, static) executable is
   snapshotted before a call and compared after it; a changed chunk is a "gw" event (C15: only the documented globals). */
typedef struct { unsigned char *addr; size_t size; char name[96]; unsigned char *snap; } gwchunk;
static gwchunk *gwc; static int ngw;
#if defined(__has_feature)
#if __has_feature(address_sanitizer) || __has_feature(thread_sanitizer)
#define GW_OFF 1
#endif
#endif
#if defined(__SANITIZE_ADDRESS__) || defined(__SANITIZE_THREAD__)
#define GW_OFF 1
#endif
/* direct use of the C allocator by library code (C04: all heap memory goes through the functions installed with
   mp_set_memory_functions).  The harness is linked with --wrap=malloc/calloc/realloc/free; a wrapped call whose return address
   lies in a .text chunk of libmpir.a is counted and reported as a guard event at the end of the call or fn event in progress. */
typedef struct { uintptr_t lo, hi; } txr;
static txr *txv; static int ntx; static volatile long direct_allocs; static volatile uintptr_t direct_ra;
static void tx_load(const char *exe) {
  char path[600], line[400]; FILE *f; snprintf(path, sizeof path, "%s.tx", exe); f = fopen(path, "r"); if (!f) return;
  while (fgets(line, sizeof line, f)) { unsigned long a; long sz; if (sscanf(line, "%lx %ld", &a, &sz) != 2) continue;
    txv = realloc(txv, (ntx + 1) * sizeof *txv); txv[ntx].lo = a; txv[ntx].hi = a + sz; ntx++; }
  fclose(f);
}
static void from_lib(void *ra) { uintptr_t a = (uintptr_t)ra; int lo = 0, hi = ntx - 1;
  while (lo <= hi) { int m = (lo + hi) / 2; if (a < txv[m].lo) hi = m - 1; else if (a >= txv[m].hi) lo = m + 1; else { direct_allocs++; direct_ra = a; return; } } }
#ifndef GW_OFF
void *__real_malloc(size_t); void *__real_calloc(size_t, size_t); void *__real_realloc(void *, size_t); void __real_free(void *);
void *__wrap_malloc(size_t n) { if (ntx) from_lib(__builtin_return_address(0)); return __real_malloc(n); }
void *__wrap_calloc(size_t a, size_t b) { if (ntx) from_lib(__builtin_return_address(0)); return __real_calloc(a, b); }
void *__wrap_realloc(void *p, size_t n) { if (ntx) from_lib(__builtin_return_address(0)); return __real_realloc(p, n); }
void __wrap_free(void *p) { if (ntx) from_lib(__builtin_return_address(0)); __real_free(p); }
#endif
static void direct_alloc_report(void) {
  if (direct_allocs) { fprintf(tr, "{\"e\":\"guard\",\"why\":\"library code called the C allocator directly (not through mp_set_memory_functions), return address %lx\",\"id\":%ld}\n", (unsigned long)direct_ra, (long)direct_allocs); n_events++; direct_allocs = 0; }
}
void gw_load(const char *exe) {
  char path[600], line[400]; FILE *f;
#ifdef GW_OFF
  return;       /* sanitizer builds pad globals with red zones: the linker-map chunks are not plain memory there */
#endif
  tx_load(exe);
  snprintf(path, sizeof path, "%s.gw", exe); f = fopen(path, "r"); if (!f) return;
  while (fgets(line, sizeof line, f)) { unsigned long a; long sz; char nm[200];
    if (sscanf(line, "%lx %ld %199s", &a, &sz, nm) != 3) continue;
    gwc = realloc(gwc, (ngw + 1) * sizeof *gwc); gwc[ngw].addr = (unsigned char *)a; gwc[ngw].size = sz; snprintf(gwc[ngw].name, sizeof gwc[ngw].name, "%s", nm); gwc[ngw].snap = malloc(sz); ngw++; }
  fclose(f);
}
void gw_snapshot(void) { int i; if (rec_threaded) return; for (i = 0; i < ngw; i++) memcpy(gwc[i].snap, gwc[i].addr, gwc[i].size); }
void gw_diff_emit(void) {
  int i; if (rec_threaded) return; for (i = 0; i < ngw; i++) if (memcmp(gwc[i].snap, gwc[i].addr, gwc[i].size)) {
    FILE *o = (tr_real && tr != tr_real) ? tr_real : tr;
    fprintf(o, "{\"e\":\"gw\",\"sym\":\"%s\"}\n", gwc[i].name); n_events++; }
}
