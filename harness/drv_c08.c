/* C08: powers and modular powers.  Moduli odd / even with 2-adic valuation 1, 63, 64, 65, 128+ (whole zero low limbs) /
   powers of two / +-1, sizes on both sides of the REDC-1/2/n and POWM crossovers; exponents of every length at and next to
   each sliding-window boundary with patterns all-ones, single bit, alternating, runs; bases 0, 1, m-1, m, m+1, > m, negative,
   residues just below m; negative exponents with and without inverse; pow_ui / ui_pow_ui incl. 0^0. */
#include "util.h"
static void shrinkz(int i) { callf("mpz_realloc2", i, (uint64_t)(ABSIZ(Zp[i]) ? (uint64_t)ABSIZ(Zp[i]) * 64 : 1)); }
static void set_bits(mpz_ptr e, unsigned long bits, int pat) {   /* exponent of exactly `bits` bits */
  unsigned long i;
  mpz_set_ui(e, 0); if (!bits) return;
  for (i = 0; i < bits; i++) { int b = pat == 0 ? 1 : pat == 1 ? 0 : pat == 2 ? (int)(i & 1) : pat == 3 ? (int)((i / 13) & 1) : (int)(rnd64() & 1); if (b) mpz_setbit(e, i); }
  mpz_setbit(e, bits - 1);
}
void drv_c08_powm(int tier, unsigned long seed, const char *extra) {
  shard_t sh = shard_parse(extra); long x = 0; int mi, mk, ei, pat, j;
  static const int msz_q[] = {1, 2, 3, 14, 15, 16, 40, 99, 100, 101, 145, 146, 147}, msz_p[] = {1, 2, 3};
  static const unsigned long ebits[] = {0, 1, 2, 6, 7, 8, 24, 25, 26, 63, 64, 65, 80, 81, 82, 240, 241, 242, 672, 673, 674, 1792, 1793, 1794};
  const int *msz = sh.pure ? msz_p : msz_q; int nm = sh.pure ? 3 : (tier ? 13 : 13), ne = sh.pure ? 10 : (tier ? 24 : 21);
  for (mi = 0; mi < nm; mi++) for (mk = 0; mk < 8; mk++) {
    x++; if (!MINE(sh, x)) continue;
    rec_reset("c08_powm", x, seed);
    for (j = 0; j < 5; j++) callf("mpz_init", j);
    { mpz_t m, b, e; int n = msz[mi];
      priv_begin(); mpz_init(m); mpz_init(b); mpz_init(e);
      _mpz_realloc(m, n + 4); rnd_limbs(PTR(m), n, mk == 7 ? 1 : 0); SIZ(m) = n; MPN_NORMALIZE(PTR(m), SIZ(m)); if (!SIZ(m)) mpz_set_ui(m, 3);
      switch (mk) { case 0: mpz_setbit(m, 0); break;                                           /* odd */
        case 1: mpz_setbit(m, 0); mpz_mul_2exp(m, m, 1); break;                               /* valuation 1 */
        case 2: mpz_setbit(m, 0); mpz_mul_2exp(m, m, 63 + rnd_below(3)); break;               /* 63, 64, 65 */
        case 3: mpz_setbit(m, 0); mpz_mul_2exp(m, m, 128 + 64 * rnd_below(3) + rnd_below(2)); break;   /* whole zero low limbs */
        case 4: mpz_set_ui(m, 1); mpz_mul_2exp(m, m, n * 64 - 1 - rnd_below(5)); break;       /* power of two */
        case 5: mpz_set_si(m, rnd_below(2) ? 1 : -1); break;
        case 6: mpz_setbit(m, 0); mpz_neg(m, m); break;                                        /* negative odd */
        default: break; }                                                                        /* B^n - 1 */
      priv_end(); pool_set_from(2, m);
      for (ei = 0; ei < ne; ei++) {
        if (n > 50 && ebits[ei] > 300 && (ei + mk) % 3) continue;
        for (pat = 0; pat < (n > 20 ? 2 : 5); pat++) {
          int bk = (int)rnd_below(9), pp = n > 20 ? (int)rnd_below(5) : pat;
          priv_begin(); set_bits(e, ebits[ei], pp);
          switch (bk) { case 0: mpz_set_ui(b, 0); break; case 1: mpz_set_ui(b, 1); break; case 2: mpz_abs(b, m); mpz_sub_ui(b, b, 1); break; case 3: mpz_set(b, m); break;
            case 4: mpz_abs(b, m); mpz_add_ui(b, b, 1); break; case 5: _mpz_realloc(b, 2 * n + 2); rnd_limbs(PTR(b), 2 * n + 1, 0); SIZ(b) = 2 * n + 1; MPN_NORMALIZE(PTR(b), SIZ(b)); break;
            case 6: _mpz_realloc(b, n + 1); rnd_limbs(PTR(b), n, 0); SIZ(b) = n; MPN_NORMALIZE(PTR(b), SIZ(b)); mpz_neg(b, b); break;
            case 7: mpz_abs(b, m); mpz_sub_ui(b, b, 1 + rnd_below(1000)); break;              /* thin band just below m */
            default: _mpz_realloc(b, n + 1); rnd_limbs(PTR(b), n, 3); SIZ(b) = n; MPN_NORMALIZE(PTR(b), SIZ(b)); }
          priv_end(); pool_set_from(0, b); pool_set_from(1, e);
          shrinkz(3); callf("mpz_powm", 3, 0, 1, 2);
          if (ebits[ei] <= 64) { shrinkz(3); callf("mpz_powm_ui", 3, 0, (uint64_t)mpz_get_ui(Zp[1]), 2); }
          if (pat == 0) { callf("mpz_set", 3, 0); callf("mpz_powm", 3, 3, 1, 2); callf("mpz_set", 3, 2); callf("mpz_powm", 3, 0, 1, 3); callf("mpz_set", 3, 1); callf("mpz_powm", 3, 0, 3, 2); }
          if (ebits[ei] > 0 && ebits[ei] < 100 && mpz_cmpabs_ui(Zp[2], 1) > 0) {                  /* negative exponent: needs an inverse, else the divide-by-zero signal */
            callf("mpz_neg", 1, 1); shrinkz(3);
            if (callf("mpz_powm", 3, 0, 1, 2)) { /* signal: this execution's heap accounting is tainted; start a fresh one */
              rec_reset("c08_powm", x, seed); for (j = 0; j < 5; j++) callf("mpz_init", j); pool_set_from(2, m); } }
        } }
      priv_begin(); mpz_clear(m); mpz_clear(b); mpz_clear(e); priv_end(); }
    for (j = 0; j < 5; j++) callf("mpz_clear", j);
    rec_quiesce();
  }
}
/* exponent 1 (and other tiny exponents) with a negative base of FEWER limbs than the modulus whose reduction |m| - |b| loses
   several limbs: m = B^(n-1) + c, b = -(B^(n-1) - d) */
void drv_c08_e1(int tier, unsigned long seed, const char *extra) {
  shard_t sh = shard_parse(extra); long x = 0; int n, c, d, j;
  for (n = 2; n <= (sh.pure ? 3 : 7); n++) for (c = 0; c < 3; c++) {
    x++; if (!MINE(sh, x)) continue;
    rec_reset("c08_e1", x, seed);
    for (j = 0; j < 5; j++) callf("mpz_init", j);
    callf("drv_setz", 2, "1"); callf("mpz_mul_2exp", 2, 2, (uint64_t)(64 * (n - 1))); callf("mpz_add_ui", 2, 2, (uint64_t)(c == 0 ? 0 : c == 1 ? 1 : 5));
    for (d = 0; d < 4; d++) { int e;
      callf("drv_setz", 0, "1"); callf("mpz_mul_2exp", 0, 0, (uint64_t)(64 * (n - 1))); callf("mpz_sub_ui", 0, 0, (uint64_t)(d == 0 ? 1 : d == 1 ? 2 : d == 2 ? 0xffffffffUL : rnd64() | 1)); callf("mpz_neg", 0, 0);
      for (e = 1; e <= 3; e++) { callf("mpz_set_ui", 1, (uint64_t)e); callf("mpz_realloc2", 3, (uint64_t)1); callf("mpz_powm", 3, 0, 1, 2); callf("mpz_realloc2", 3, (uint64_t)1); callf("mpz_powm_ui", 3, 0, (uint64_t)e, 2);
        callf("mpz_neg", 2, 2); callf("mpz_powm", 3, 0, 1, 2); callf("mpz_neg", 2, 2); }
      callf("mpz_neg", 0, 0); callf("mpz_set_ui", 1, (uint64_t)1); callf("mpz_powm", 3, 0, 1, 2); }
    for (j = 0; j < 5; j++) callf("mpz_clear", j);
    rec_quiesce();
  }
}
void drv_c08_pow(int tier, unsigned long seed, const char *extra) {
  shard_t sh = shard_parse(extra); long x = 0; int lb, e, s, j;
  for (lb = 0; lb <= (sh.pure ? 2 : 6); lb++) for (s = 0; s < 2; s++) {
    x++; if (!MINE(sh, x)) continue;
    rec_reset("c08_pow", x, seed);
    for (j = 0; j < 3; j++) callf("mpz_init", j);
    for (e = 0; e <= (sh.pure ? 9 : 40); e += (e < 10 ? 1 : 1 + e / 4)) {
      callf("drv_rndz", 0, lb, (int)rnd_below(NKINDS), s);
      shrinkz(1); callf("mpz_pow_ui", 1, 0, (uint64_t)e); callf("mpz_set", 1, 0); callf("mpz_pow_ui", 1, 1, (uint64_t)e);
      { static const uint64_t bs[] = {0, 1, 2, 3, 10, 0xffffffffUL, 0x100000000UL, 0xffffffffffffffffUL}; shrinkz(1); callf("mpz_ui_pow_ui", 1, bs[(e + lb) % 8], (uint64_t)e); }
    }
    if (!sh.pure) { static const char *pw[] = {"1", "-1", "2", "-2", "10000000000000000", "-ffffffffffffffff"}; int k;
      for (k = 0; k < 6; k++) { callf("drv_setz", 0, pw[k]); shrinkz(1); callf("mpz_pow_ui", 1, 0, (uint64_t)(63 + k)); callf("mpz_pow_ui", 1, 0, (uint64_t)(300 + k)); } }
    for (j = 0; j < 3; j++) callf("mpz_clear", j);
    rec_quiesce();
  }
}

/* c08_uismall: mpz_powm_ui with SMALL exponents (its own square-and-multiply loop, exponents below 20; from 20 on it forwards to mpz_powm) at the bases where an
   intermediate power is as long as the modulus: for every e = 1..21 and modulus classes of 1, 2, 3, 4 and 32 limbs (top bit set: 2^(64n-1), 2^(64n-1)+29, B^n-1, B^n-2,
   2^(64n-1)+2^(32n)+12345; top bit clear: 2^(64n-2)+1), the bases floor(root_e(B^n - 1)) and floor(root_e(m)), floor(root_e(2m)) and their neighbours -- b^e just
   below / above the modulus and just below B^n, where "shorter than m, no need to divide yet" decisions go wrong -- plus the same residues as multi-limb bases
   (b + m, b + 5m) and negated.  The roots are taken by recorded mpz_root calls, so the specification sees every value. */
void drv_c08_uismall(int tier, unsigned long seed, const char *extra) {
  shard_t sh = shard_parse(extra); long x = 0; int mi, ci, e, j;
  static const int mns[] = {1, 2, 3, 4, 32};
  for (mi = 0; mi < (sh.pure ? 2 : 5); mi++) for (ci = 0; ci < 6; ci++) {
    int mn = mns[mi];
    x++; if (!MINE(sh, x)) continue;
    rec_reset("c08_uismall", x, seed);
    for (j = 0; j < 7; j++) callf("mpz_init", j);
    /* modulus in 2 */
    callf("mpz_set_ui", 2, (uint64_t)0);
    if (ci == 0) callf("mpz_setbit", 2, (uint64_t)(64 * mn - 1));
    else if (ci == 1) { callf("mpz_setbit", 2, (uint64_t)(64 * mn - 1)); callf("mpz_add_ui", 2, 2, (uint64_t)29); }
    else if (ci == 2) { callf("mpz_setbit", 2, (uint64_t)(64 * mn)); callf("mpz_sub_ui", 2, 2, (uint64_t)1); }
    else if (ci == 3) { callf("mpz_setbit", 2, (uint64_t)(64 * mn)); callf("mpz_sub_ui", 2, 2, (uint64_t)2); }
    else if (ci == 4) { callf("mpz_setbit", 2, (uint64_t)(64 * mn - 1)); callf("mpz_setbit", 2, (uint64_t)(32 * mn)); callf("mpz_add_ui", 2, 2, (uint64_t)12345); }
    else { callf("mpz_setbit", 2, (uint64_t)(64 * mn - 2)); callf("mpz_add_ui", 2, 2, (uint64_t)1); }
    callf("mpz_set_ui", 5, (uint64_t)0); callf("mpz_setbit", 5, (uint64_t)(64 * mn)); callf("mpz_sub_ui", 5, 5, (uint64_t)1);         /* B^n - 1 */
    callf("mpz_mul_2exp", 6, 2, (uint64_t)1);                                                                                       /* 2m */
    for (e = 1; e <= (sh.pure ? 4 : 21); e++) { int src, d, v;
      if (mn == 32 && !tier && e > 6 && (e & 1)) continue;
      for (src = 0; src < 3; src++) {
        callf("mpz_root", 4, src == 0 ? 5 : src == 1 ? 2 : 6, (uint64_t)e);
        for (d = -1; d <= 1; d++) { if (src == 0 && d == 1 && e == 1) continue;
          if (d < 0) { if (mpz_sgn(Zp[4]) == 0) continue; callf("mpz_sub_ui", 0, 4, (uint64_t)1); } else if (d > 0) callf("mpz_add_ui", 0, 4, (uint64_t)1); else callf("mpz_set", 0, 4);
          for (v = 0; v < 4; v++) { if (v && (d + e + src) % 3 != v - 1 && !tier) continue;
            if (v == 1) callf("mpz_add", 0, 0, 2); else if (v == 2) { callf("mpz_addmul_ui", 0, 2, (uint64_t)4); } else if (v == 3) callf("mpz_neg", 0, 0);
            shrinkz(3); callf("mpz_powm_ui", 3, 0, (uint64_t)e, 2);
            if (v == 0) { callf("mpz_set", 3, 0); callf("mpz_powm_ui", 3, 3, (uint64_t)e, 2); callf("mpz_neg", 2, 2); shrinkz(3); callf("mpz_powm_ui", 3, 0, (uint64_t)e, 2); callf("mpz_neg", 2, 2);
                          callf("mpz_set_ui", 1, (uint64_t)e); shrinkz(3); callf("mpz_powm", 3, 0, 1, 2); } } } }
    }
    for (j = 0; j < 7; j++) callf("mpz_clear", j);
    rec_quiesce();
  }
}

/* c08_zero: powers that are EXACTLY 0 modulo m (the representative the reduction must return is 0, not m): m = q^2 * c with b a multiple of q (and of the
   even part), so that b^e vanishes mod m from e = 2 on; q of 1..3, 20 and 60 limbs (REDC_1 / REDC_2 / REDC_N ranges via the modulus length), odd and even m,
   negative base and modulus, exponents 2, 3, 20, 21, 2^64-1 and multi-limb; also b^e == m - 1, 1 (mod m) neighbours through b = m - 1, m + 1. */
void drv_c08_zero(int tier, unsigned long seed, const char *extra) {
  shard_t sh = shard_parse(extra); long x = 0; int qi, ci, j;
  static const int qls[] = {1, 2, 3, 20, 60, 110};
  static const uint64_t es[] = {2, 3, 20, 21, 64, 0xffffffffffffffffUL};
  for (qi = 0; qi < (sh.pure ? 2 : (tier ? 6 : 5)); qi++) for (ci = 0; ci < 4; ci++) { int ei, bi;
    x++; if (!MINE(sh, x)) continue;
    rec_reset("c08_zero", x, seed);
    for (j = 0; j < 7; j++) callf("mpz_init", j);
    callf("drv_rndz", 4, qls[qi], (int)rnd_below(NKINDS), 0); callf("mpz_setbit", 4, (uint64_t)0);                 /* q odd */
    callf("mpz_mul", 2, 4, 4);                                                                                    /* m = q^2 */
    if (ci == 1) callf("mpz_mul_ui", 2, 2, (uint64_t)15); else if (ci == 2) callf("mpz_mul_2exp", 2, 2, (uint64_t)(1 + rnd_below(70))); else if (ci == 3) { callf("mpz_mul", 2, 2, 4); callf("mpz_neg", 2, 2); }
    for (bi = 0; bi < 5; bi++) {
      if (bi == 0) callf("mpz_set", 0, 4); else if (bi == 1) { callf("mpz_mul_ui", 0, 4, (uint64_t)(2 * (1 + rnd_below(1000)))); callf("mpz_mul_2exp", 0, 0, (uint64_t)40); }
      else if (bi == 2) { callf("mpz_mul", 0, 4, 4); callf("mpz_mul_ui", 0, 0, (uint64_t)30); callf("mpz_neg", 0, 0); } else if (bi == 3) { callf("mpz_abs", 0, 2); callf("mpz_sub_ui", 0, 0, (uint64_t)1); } else { callf("mpz_abs", 0, 2); callf("mpz_add_ui", 0, 0, (uint64_t)1); }
      if (ci == 2 && bi < 3) callf("mpz_mul_2exp", 0, 0, (uint64_t)36);
      for (ei = 0; ei < 6; ei++) { if (qls[qi] > 3 && ei > 3 && bi > 1) continue;
        shrinkz(3); callf("mpz_powm_ui", 3, 0, es[ei], 2); callf("mpz_set_ui", 1, es[ei]); if (ei == 5) callf("mpz_mul_2exp", 1, 1, (uint64_t)3); shrinkz(3); callf("mpz_powm", 3, 0, 1, 2);
        if (ei == 0) { callf("mpz_set", 3, 0); callf("mpz_powm", 3, 3, 1, 2); callf("mpz_set", 3, 2); callf("mpz_powm", 3, 0, 1, 3); } }
    }
    for (j = 0; j < 7; j++) callf("mpz_clear", j);
    rec_quiesce();
  }
}
