/* C18: formatted output and input.  Rows of the flag x width x precision x conversion x value product come from TLC
   (PrintfModel with EMIT: "flags|width|prec|conv|value"); each is printed with gmp_snprintf AND with the C library's snprintf
   on the equal long.  Plus larger values, snprintf buffer sizes 0..len+1, asprintf block size, %Q %N %M, mixed standard
   conversions, and gmp_sscanf of everything printed. */
#define _GNU_SOURCE
#include "util.h"
#include <ctype.h>
static void in_z(const char *k, mpz_srcptr z) { char *h = hex_of_limbs(PTR(z), ABSIZ(z), SIZ(z) < 0); fn_in_str(k, h); free(h); }
static void out_z(const char *k, mpz_srcptr z) { char *h = hex_of_limbs(PTR(z), ABSIZ(z), SIZ(z) < 0); fn_out_str(k, h); free(h); }
/* width / precision codes (PrintfLayout.tla): -1 none, n literal, 1000+n '*' with argument n, 2000+n '*' with argument -n, precision 3000 a bare '.' */
static void mkfmt(char *fmt, const char *fl, int w, int p, const char *type, char conv) {
  char *q = fmt; *q++ = '%'; q += sprintf(q, "%s", fl);
  if (w >= 1000) *q++ = '*'; else if (w >= 0) q += sprintf(q, "%d", w);
  if (p == 3000) *q++ = '.'; else if (p >= 1000) { *q++ = '.'; *q++ = '*'; } else if (p >= 0) q += sprintf(q, ".%d", p);
  q += sprintf(q, "%s%c", type, conv);
}
static int star_arg(int code) { return code >= 2000 ? -(code - 2000) : code - 1000; }
/* the other members of the printf family: each has its own output callbacks (sprintffuns.c, asprntffuns.c, printffuns.c,
   obprntffuns.c, snprntffuns.c) behind the same __gmp_doprnt, and each has a va_list twin */
#include <obstack.h>
#include <stdarg.h>
#include <unistd.h>
#define obstack_chunk_alloc malloc
#define obstack_chunk_free free
static int v_sprintf(char *b, const char *f, ...) { va_list ap; int r; va_start(ap, f); r = gmp_vsprintf(b, f, ap); va_end(ap); return r; }
static int v_snprintf(char *b, size_t n, const char *f, ...) { va_list ap; int r; va_start(ap, f); r = gmp_vsnprintf(b, n, f, ap); va_end(ap); return r; }
static int v_asprintf(char **b, const char *f, ...) { va_list ap; int r; va_start(ap, f); r = gmp_vasprintf(b, f, ap); va_end(ap); return r; }
static int v_fprintf(FILE *o, const char *f, ...) { va_list ap; int r; va_start(ap, f); r = gmp_vfprintf(o, f, ap); va_end(ap); return r; }
static int v_printf(const char *f, ...) { va_list ap; int r; va_start(ap, f); r = gmp_vprintf(f, ap); va_end(ap); return r; }
static int v_obprintf(struct obstack *o, const char *f, ...) { va_list ap; int r; va_start(ap, f); r = gmp_obstack_vprintf(o, f, ap); va_end(ap); return r; }
static int v_sscanf(const char *b, const char *f, ...) { va_list ap; int r; va_start(ap, f); r = gmp_vsscanf(b, f, ap); va_end(ap); return r; }
static int v_fscanf(FILE *i, const char *f, ...) { va_list ap; int r; va_start(ap, f); r = gmp_vfscanf(i, f, ap); va_end(ap); return r; }
static int v_scanf(const char *f, ...) { va_list ap; int r; va_start(ap, f); r = gmp_vscanf(f, ap); va_end(ap); return r; }
static char *altbuf; static size_t altlen; static FILE *altf;
static void alt_add(const char *name, const char *text, size_t n, int ret) {
  fprintf(altf, "%s{\"n\":\"%s\",\"r\":%d,\"t\":\"", ftell(altf) > 1 ? "," : "", name, ret);
  { size_t i; for (i = 0; i < n; i++) { unsigned char ch = (unsigned char)text[i]; if (ch == '"' || ch == '\\') fprintf(altf, "\\%c", ch); else if (ch < 32 || ch > 126) fprintf(altf, "\\u%04x", ch); else fputc(ch, altf); } }
  fputs("\"}", altf);
}
/* stdout captured through a temporary file */
static int with_stdout(int use_v, const char *fmt, mpz_srcptr v, char *out, size_t cap, size_t *n) {
  FILE *t = tmpfile(); int save, r; if (!t) { *n = 0; return -2; }
  fflush(stdout); save = dup(1); dup2(fileno(t), 1);
  r = use_v ? v_printf(fmt, v) : gmp_printf(fmt, v);
  fflush(stdout); dup2(save, 1); close(save);
  rewind(t); *n = fread(out, 1, cap, t); fclose(t); return r;
}
static void alt_family(const char *fmt, mpz_srcptr v) {
  static char b[8192]; int r; size_t n; char *ap = NULL; FILE *ms; char *mb = NULL; size_t ml = 0; struct obstack ob; void (*freef)(void *, size_t);
  altf = open_memstream(&altbuf, &altlen); fputc('[', altf);
  r = gmp_sprintf(b, fmt, v); alt_add("gmp_sprintf", b, r < 0 ? 0 : strlen(b), r);
  r = v_sprintf(b, fmt, v); alt_add("gmp_vsprintf", b, r < 0 ? 0 : strlen(b), r);
  r = v_snprintf(b, sizeof b, fmt, v); alt_add("gmp_vsnprintf", b, r < 0 ? 0 : strlen(b), r);
  mp_get_memory_functions(NULL, NULL, &freef);
  r = gmp_asprintf(&ap, fmt, v); alt_add("gmp_asprintf", ap, r < 0 ? 0 : strlen(ap), r); if (ap) (*freef)(ap, strlen(ap) + 1);
  ap = NULL; r = v_asprintf(&ap, fmt, v); alt_add("gmp_vasprintf", ap, r < 0 ? 0 : strlen(ap), r); if (ap) (*freef)(ap, strlen(ap) + 1);
  ms = open_memstream(&mb, &ml); r = gmp_fprintf(ms, fmt, v); fflush(ms); alt_add("gmp_fprintf", mb, ml, r); fclose(ms); free(mb);
  mb = NULL; ml = 0; ms = open_memstream(&mb, &ml); r = v_fprintf(ms, fmt, v); fflush(ms); alt_add("gmp_vfprintf", mb, ml, r); fclose(ms); free(mb);
  r = with_stdout(0, fmt, v, b, sizeof b, &n); alt_add("gmp_printf", b, n, r);
  r = with_stdout(1, fmt, v, b, sizeof b, &n); alt_add("gmp_vprintf", b, n, r);
  obstack_init(&ob); r = gmp_obstack_printf(&ob, fmt, v); n = obstack_object_size(&ob); alt_add("gmp_obstack_printf", (char *)obstack_base(&ob), n, r); obstack_free(&ob, NULL);
  obstack_init(&ob); r = v_obprintf(&ob, fmt, v); n = obstack_object_size(&ob); alt_add("gmp_obstack_vprintf", (char *)obstack_base(&ob), n, r); obstack_free(&ob, NULL);
  fputc(']', altf); fclose(altf);
}
static long row_no; static int force_alt;
static void one_row(const char *fl, int w, int p, char conv, mpz_srcptr v) {
  char fmt[64], cfmt[64], g[4096], c[4096], cv[2] = {conv, 0}; int ret, havec = mpz_fits_slong_p(v), alt = (row_no++ % 5 == 0) || force_alt;
  int ws = w >= 1000, ps = p >= 1000 && p != 3000;
  mkfmt(fmt, fl, w, p, "Z", conv); mkfmt(cfmt, fl, w, p, "l", conv);
  if (ws || ps) {      /* '*' arguments precede the value */
    int wa = ws ? star_arg(w) : 0, pa = ps ? star_arg(p) : 0; long lv = havec ? mpz_get_si(v) : 0;
    fn_begin("gmp_printf_z"); fn_in_str("fl", fl); fn_in_int("w", w); fn_in_int("p", p); fn_in_str("conv", cv); in_z("v", v); fn_in_int("havec", havec); fn_mid();
    c[0] = 0;
    if (ws && ps) { ret = gmp_snprintf(g, sizeof g, fmt, wa, pa, v); if (havec) snprintf(c, sizeof c, cfmt, wa, pa, lv); }
    else if (ws) { ret = gmp_snprintf(g, sizeof g, fmt, wa, v); if (havec) snprintf(c, sizeof c, cfmt, wa, lv); }
    else { ret = gmp_snprintf(g, sizeof g, fmt, pa, v); if (havec) snprintf(c, sizeof c, cfmt, pa, lv); }
    fn_out_str("g", g); fn_out_str("c", c); fn_out_int("ret", ret); fn_out_raw("alt", "[]"); fn_end();
    return; }
  if (alt) { priv_begin(); alt_family(fmt, v); priv_end(); }
  fn_begin("gmp_printf_z"); fn_in_str("fl", fl); fn_in_int("w", w); fn_in_int("p", p); fn_in_str("conv", cv); in_z("v", v); fn_in_int("havec", havec); fn_mid();
  ret = gmp_snprintf(g, sizeof g, fmt, v);
  c[0] = 0; if (havec) snprintf(c, sizeof c, cfmt, mpz_get_si(v));
  fn_out_str("g", g); fn_out_str("c", c); fn_out_int("ret", ret); fn_out_raw("alt", alt ? altbuf : "[]"); fn_end();
  if (alt) { free(altbuf); altbuf = NULL; }
}
void drv_c18_fmt(int tier, unsigned long seed, const char *extra) {
  shard_t sh = shard_parse(extra); const char *path = opt_val(&sh, "file"); FILE *f; char line[256]; long n = 0, cnt = 0; mpz_t v, big;
  if (!path || !(f = fopen(path, "r"))) { fprintf(stderr, "c18_fmt: no file\n"); exit(3); }
  priv_begin(); mpz_init(v); mpz_init(big); priv_end();
  while (fgets(line, sizeof line, f)) {
    char fl[16], conv; int w, p; long val; char *b1 = strchr(line, '|'), *b2;
    if (!b1) continue; n++; if (!MINE(sh, n)) continue;
    memcpy(fl, line, b1 - line); fl[b1 - line] = 0; if (sscanf(b1 + 1, "%d|%d|%c|%ld", &w, &p, &conv, &val) != 4) continue;
    if (cnt % 60 == 0) rec_reset("c18_fmt", n, seed);
    cnt++;
    priv_begin(); mpz_set_si(v, val); priv_end(); one_row(fl, w, p, conv, v);
    if (cnt % 4 == 0) { /* the same row on a value beyond any C type: digits of get_str placed by the same rules */
      priv_begin(); mpz_set_si(big, val ? val : 7); mpz_mul_2exp(big, big, 64 + rnd_below(130)); mpz_add_ui(big, big, rnd64()); priv_end(); one_row(fl, w + (w > 0 ? 30 : 0), p + (p > 0 && p != 3000 && !(p >= 2000) ? 40 : 0), conv, big); }
  }
  fclose(f); priv_begin(); mpz_clear(v); mpz_clear(big); priv_end();
}
/* snprintf accounting, asprintf, other conversions, mixed formats, scanf */
void drv_c18_misc(int tier, unsigned long seed, const char *extra) {
  shard_t sh = shard_parse(extra); long x; mpz_t v, w; mpq_t q, q2; mpf_t fv;
  priv_begin(); mpz_init(v); mpz_init(w); mpq_init(q); mpq_init(q2); mpf_init2(fv, 128); priv_end();
  for (x = 0; x < (tier ? 400 : 120); x++) {
    char expect[2048], buf[2100], fmt[64]; int len, size, ret; static const char *fmts[] = {"%Zd", "%Zx", "%#ZX", "%+Zd", "%40Zd", "%-40Zd|", "%.30Zd", "%Zo", "[%#Zx]"};
    if (!MINE(sh, x)) continue;
    rec_reset("c18_misc", x, seed);
    priv_begin(); { int l = (int)rnd_below(5); if (!l) mpz_set_si(v, (long)rnd_below(2000) - 1000); else { _mpz_realloc(v, l); rnd_limbs(PTR(v), l, (int)rnd_below(NKINDS)); SIZ(v) = l; MPN_NORMALIZE(PTR(v), SIZ(v)); if (rnd64() & 1) SIZ(v) = -SIZ(v); } } priv_end();
    strcpy(fmt, fmts[x % 9]);
    len = gmp_snprintf(expect, sizeof expect, fmt, v);
    if (len < 0 || len >= (int)sizeof expect) continue;
    /* every buffer size 0 .. len+1 (sampled when long): never more than size bytes written, full length returned */
    for (size = 0; size <= len + 1; size += (len > 40 ? 1 + (int)rnd_below(7) : 1)) { int i, guard = 1;
      memset(buf, 0x7e, sizeof buf);
      fn_begin("gmp_snprintf"); fn_in_str("expect", expect); fn_in_int("size", size); fn_mid();
      ret = gmp_snprintf(buf + 16, size, fmt, v);
      for (i = 0; i < 16; i++) if (buf[i] != 0x7e) guard = 0; for (i = 16 + size; i < (int)sizeof buf; i++) if (buf[i] != 0x7e) guard = 0;
      if (size > 0 && buf[16 + (size - 1 < len ? size - 1 : len)] != 0) guard = 0;
      fn_out_int("ret", ret); fn_out_int("guard", guard); if (size > 0) fn_out_str("buf", buf + 16); fn_end(); }
    /* asprintf: the block is exactly length + 1 bytes */
    { char *res = NULL; size_t bs;
      fn_begin("gmp_asprintf"); fn_in_str("expect", expect); fn_mid(); priv_begin(); ret = gmp_asprintf(&res, fmt, v); priv_end();
      bs = rec_block_size(res); fn_out_int("ret", ret); fn_out_str("text", res ? res : ""); fn_out_int("blksz", (long)bs); fn_end();
      if (res) { void (*ff)(void *, size_t); mp_get_memory_functions(NULL, NULL, &ff); priv_begin(); ff(res, strlen(res) + 1); priv_end(); } }
    /* mixed standard and MPIR conversions in one format: standard parts must be unaffected */
    { char e2[4096], g2[4096], zs[2048], zx[2048]; int iv = (int)rnd64(); double dv = (double)(rnd64() >> 20) / 1024.0; const char *sv = "str%ing";
      gmp_snprintf(zs, sizeof zs, "%Zd", v); gmp_snprintf(zx, sizeof zx, "%#Zx", v);
      snprintf(e2, sizeof e2, "%d|%s|%-8s|%5.2f|%s|%%|%lu|%c", iv, zs, sv, dv, zx, 123456789UL, 'q');
      fn_begin("gmp_printf_mixed"); fn_in_str("expect", e2); fn_mid(); ret = gmp_snprintf(g2, sizeof g2, "%d|%Zd|%-8s|%5.2f|%#Zx|%%|%lu|%c", iv, v, sv, dv, v, 123456789UL, 'q'); fn_out_str("g", g2); fn_out_int("ret", ret); fn_end();
      /* %Q, %N, %M by their rules: num/den text, limb vector value, single limb */
      priv_begin(); mpz_set(mpq_numref(q), v); mpz_set_ui(mpq_denref(q), 1 + rnd_below(100000)); mpq_canonicalize(q); priv_end();
      { char qs[2048], *a = mpz_get_str(NULL, 10, mpq_numref(q)), *b = mpz_get_str(NULL, 10, mpq_denref(q)); if (mpz_cmp_ui(mpq_denref(q), 1)) snprintf(e2, sizeof e2, "<%s/%s>", a, b); else snprintf(e2, sizeof e2, "<%s>", a);
        { void (*ff)(void *, size_t); mp_get_memory_functions(NULL, NULL, &ff); ff(a, strlen(a) + 1); ff(b, strlen(b) + 1); }
        fn_begin("gmp_printf_mixed"); fn_in_str("expect", e2); fn_mid(); ret = gmp_snprintf(qs, sizeof qs, "<%Qd>", q); fn_out_str("g", qs); fn_out_int("ret", ret); fn_end(); }
      { mp_limb_t lm = rnd64(); snprintf(e2, sizeof e2, "%lu/%lx/%s", (unsigned long)lm, (unsigned long)lm, zs);
        fn_begin("gmp_printf_mixed"); fn_in_str("expect", e2); fn_mid(); ret = gmp_snprintf(g2, sizeof g2, "%Mu/%Mx/%Nd", lm, lm, PTR(v), (mp_size_t)SIZ(v)); fn_out_str("g", g2); fn_out_int("ret", ret); fn_end(); }
      /* %F on exactly representable short decimals against the C library */
      { static const double fd[] = {0.0, 1.0, -1.5, 0.25, 123456.75, -0.125, 1048576.0, 3.0e10, 0.5}; double d = fd[x % 9]; static const char *ff[] = {"%.6Ff", "%.10Fe", "%Fg", "%12.4Ff", "%-14.3Fe|", "%+.8Fg"}; static const char *cf[] = {"%.6f", "%.10e", "%g", "%12.4f", "%-14.3e|", "%+.8g"};
        priv_begin(); mpf_set_d(fv, d); priv_end(); snprintf(e2, sizeof e2, cf[x % 6], d);
        fn_begin("gmp_printf_mixed"); fn_in_str("expect", e2); fn_mid(); ret = gmp_snprintf(g2, sizeof g2, ff[x % 6], fv); fn_out_str("g", g2); fn_out_int("ret", ret); fn_end(); } }
    /* %F conversions of an operand of very high precision (the digit-count tables are indexed by base, never by precision): count = length */
    if (x % 40 == 3) { static const char *bf[] = {"%Fg", "%Fe", "%.30Ff", "%Fa", "%.Fe"}; mpf_t hp; int j; char *ap = NULL; void (*freef)(void *, size_t);
      mp_get_memory_functions(NULL, NULL, &freef);
      priv_begin(); mpf_init2(hp, 20000); mpf_set_ui(hp, 1); mpf_div_ui(hp, hp, 3); mpf_mul_2exp(hp, hp, (unsigned long)rnd_below(300)); priv_end();
      for (j = 0; j < 5; j++) { fn_begin("gmp_printf_hp"); fn_in_str("fmt", bf[j]); fn_mid(); priv_begin(); ret = gmp_asprintf(&ap, bf[j], hp); priv_end();
        fn_out_int("ret", ret); fn_out_int("len", ap ? (long)strlen(ap) : -1); fn_end(); priv_begin(); if (ap) (*freef)(ap, strlen(ap) + 1); ap = NULL; priv_end(); }
      priv_begin(); mpf_clear(hp); priv_end(); }
    /* runs of padding / precision zeros longer than the output callbacks' internal blocks (printffuns.c writes fill characters in blocks of 256): widths and
       precisions next to 256 and 512 and one far beyond, right / left / zero padded, through EVERY member of the family */
    if (x % 10 == 8) { static const int big[] = {255, 256, 257, 258, 300, 511, 512, 513, 1000}; int bi; force_alt = 1;
      priv_begin(); mpz_set_si(w, (long)rnd_below(200000) - 100000); priv_end();
      for (bi = 0; bi < 9; bi++) { one_row("", big[bi], -1, 'd', w); one_row("-", big[bi], -1, 'x', w); one_row("0", big[bi], -1, 'd', w); one_row("", -1, big[bi], 'd', w); one_row("#", big[bi] + 40, big[bi], 'o', w); }
      force_alt = 0; }
    /* a standard %c conversion given the NUL character in front of a %Z conversion: every member of the family emits the byte and counts it
       ("standard conversions mixed into the format are unaffected"); bytes are logged in hex */
    if (x % 10 == 4) { int fam; char *hx2 = NULL; static const char *fn5[] = {"gmp_sprintf", "gmp_snprintf", "gmp_asprintf", "gmp_fprintf", "gmp_obstack_printf"};
      for (fam = 0; fam < 5; fam++) { char ob[600]; int r = -9; size_t n = 0; memset(ob, 0x55, sizeof ob);
        if (ABSIZ(v) > 4) break;
        fn_begin("gmp_printf_nul"); fn_in_str("fam", fn5[fam]); in_z("v", v); fn_mid(); priv_begin();
        if (fam == 0) { r = gmp_sprintf(ob, "%c%Zd|", 0, v); n = r > 0 ? (size_t)r + 1 : 0; }
        else if (fam == 1) { r = gmp_snprintf(ob, sizeof ob, "%c%Zd|", 0, v); n = r > 0 ? (size_t)r + 1 : 0; }
        else if (fam == 2) { char *ap = NULL; void (*freef)(void *, size_t); mp_get_memory_functions(NULL, NULL, &freef); r = gmp_asprintf(&ap, "%c%Zd|", 0, v); n = r > 0 ? (size_t)r + 1 : 0; if (ap) { memcpy(ob, ap, n); (*freef)(ap, n); } }
        else if (fam == 3) { char *mb = NULL; size_t ml = 0; FILE *ms = open_memstream(&mb, &ml); r = gmp_fprintf(ms, "%c%Zd|", 0, v); fclose(ms); n = ml; memcpy(ob, mb, ml < sizeof ob ? ml : 0); free(mb); }
        else { struct obstack obs; obstack_init(&obs); r = gmp_obstack_printf(&obs, "%c%Zd|", 0, v); n = obstack_object_size(&obs); memcpy(ob, obstack_base(&obs), n < sizeof ob ? n : 0); obstack_free(&obs, NULL); }
        priv_end();
        { size_t k; hx2 = malloc(2 * n + 1); for (k = 0; k < n; k++) sprintf(hx2 + 2 * k, "%02x", (unsigned char)ob[k]); hx2[2 * n] = 0; }
        fn_out_int("ret", r); fn_out_str("hex", hx2); fn_end(); free(hx2); } }
    /* a literal byte of the format above 0x7f (scanf matches ordinary characters of the format exactly: C99 7.19.6.2p6) */
    if (x % 10 == 6) { int b; for (b = 0x21; b < 0x100; b += (b < 0x7f ? 13 : 1)) { char in[64], fm[8]; int r;
        if (b == '%' || isspace(b) || isdigit(b) || b == '-' || b == '+') continue;
        priv_begin(); mpz_set_si(w, (long)rnd_below(100000) - 50000); priv_end();
        gmp_snprintf(in, sizeof in, "%c%Zd", b, w); fm[0] = (char)b; strcpy(fm + 1, "%Zd");
        fn_begin("gmp_sscanf_lit"); fn_in_int("byte", b); in_z("v", w); fn_mid(); priv_begin(); { mpz_t w3; FILE *fi; int r3; mpz_init(w3); r = gmp_sscanf(in, fm, w3);
          fn_out_int("ret", r); out_z("v", w3); fi = fmemopen(in, strlen(in), "r"); mpz_set_ui(w3, 0); r3 = gmp_fscanf(fi, fm, w3); fclose(fi); fn_out_int("fret", r3); out_z("fv", w3); mpz_clear(w3); } priv_end(); fn_end(); } }
    /* scanf reads back what printf wrote */
    { int r;
      fn_begin("gmp_sscanf"); fn_in_str("text", expect); in_z("v", v); fn_in_int("nfields", 1); fn_mid();
      priv_begin(); mpz_set_ui(w, 0); { const char *sf = (x % 9 == 1 || x % 9 == 2 || x % 9 == 8) ? (x % 9 == 8 ? "[%Zi]" : (x % 9 == 1 ? "%Zx" : "%Zi")) : (x % 9 == 7 ? "%Zo" : (x % 9 == 5 ? "%Zd|" : "%Zd")); r = gmp_sscanf(expect, sf, w);
        /* the other members of the scanf family on the same text: gmp_fscanf on a stream, gmp_scanf on a redirected stdin, the va_list twins */
        { mpz_t w2; FILE *fi; int r2, save; char *hx; altf = open_memstream(&altbuf, &altlen); fputc('[', altf); mpz_init(w2);
#define ALT_SCAN(name, call) do { mpz_set_ui(w2, 0); r2 = (call); hx = hex_of_limbs(PTR(w2), ABSIZ(w2), SIZ(w2) < 0); fprintf(altf, "%s{\"n\":\"%s\",\"r\":%d,\"v\":\"%s\"}", ftell(altf) > 1 ? "," : "", name, r2, hx); free(hx); } while (0)
          fi = fmemopen((void *)expect, strlen(expect), "r"); ALT_SCAN("gmp_fscanf", gmp_fscanf(fi, sf, w2)); fclose(fi);
          fi = fmemopen((void *)expect, strlen(expect), "r"); ALT_SCAN("gmp_vfscanf", v_fscanf(fi, sf, w2)); fclose(fi);
          ALT_SCAN("gmp_vsscanf", v_sscanf(expect, sf, w2));
          { FILE *t = tmpfile(); if (t) { fputs(expect, t); fflush(t); rewind(t); fflush(stdin); save = dup(0); dup2(fileno(t), 0); clearerr(stdin);
              ALT_SCAN("gmp_scanf", gmp_scanf(sf, w2)); fseek(stdin, 0, SEEK_SET); clearerr(stdin); lseek(0, 0, SEEK_SET); ALT_SCAN("gmp_vscanf", v_scanf(sf, w2));
              fseek(stdin, 0, SEEK_END); dup2(save, 0); close(save); clearerr(stdin); fclose(t); } }
          mpz_clear(w2); fputc(']', altf); fclose(altf); } } priv_end();
      fn_out_int("ret", r); out_z("v", w); fn_out_raw("alt", altbuf); fn_end(); free(altbuf); altbuf = NULL; }
  }
  priv_begin(); mpz_clear(v); mpz_clear(w); mpq_clear(q); mpq_clear(q2); mpf_clear(fv); priv_end();
}
/* %F conversions against the manual's rule: the text denotes the operand to within one unit of the last generated digit.  Integer-valued
   floats 2^k - 1 of up to 45 limbs held exactly (every digit is significant), random mantissas at exponents from far below to far above
   the point, destination-independent precisions; fixed, scientific and general style, default / zero / small / large precision */
void drv_c18_float(int tier, unsigned long seed, const char *extra) {
  shard_t sh = shard_parse(extra); long x = 0; int li, vi, fi;
  static const int limbs[] = {1, 2, 3, 7, 8, 9, 12, 20, 40, 45};
  static const char *fmts[] = {"%.0Ff", "%Ff", "%.3Ff", "%.25Ff", "%.0Fe", "%Fe", "%.20Fe", "%.60Fe", "%Fg", "%.10Fg", "%.40Fg", "%+.2Ff", "%30.1Ff"};
  for (li = 0; li < (sh.pure ? 2 : 10); li++) for (vi = 0; vi < 6; vi++) {
    mpf_t f; char g[6000]; int L = limbs[li], ret;
    x++; if (!MINE(sh, x)) continue;
    rec_reset("c18_float", x, seed);
    priv_begin(); mpf_init2(f, (unsigned long)64 * L);
    switch (vi) {
    case 0: mpf_set_ui(f, 1); mpf_mul_2exp(f, f, (unsigned long)64 * L); mpf_sub_ui(f, f, 1); break;                          /* 2^(64 L) - 1: an integer using every bit */
    case 1: mpf_set_ui(f, 1); mpf_mul_2exp(f, f, (unsigned long)64 * L - 1 - rnd_below(40)); mpf_sub_ui(f, f, 1); mpf_neg(f, f); break;
    case 2: mpf_set_ui(f, 1); mpf_div_ui(f, f, 3); mpf_mul_2exp(f, f, (unsigned long)rnd_below(64 * L)); break;                 /* a fraction part and an integer part */
    case 3: mpf_set_ui(f, 7); mpf_div_ui(f, f, 9); mpf_div_2exp(f, f, (unsigned long)rnd_below(300)); break;                    /* below one, leading zeros */
    case 4: mpf_set_ui(f, 999999999); mpf_div_ui(f, f, 1000000000); mpf_mul_2exp(f, f, (unsigned long)rnd_below(30)); break;   /* digits that round up across the point */
    default: { mp_limb_t m[48]; int n = 1 + (int)rnd_below(L); rnd_limbs(m, n, (int)rnd_below(NKINDS)); if (!m[n - 1]) m[n - 1] = 1; MPN_COPY(PTR(f), m, n); SIZ(f) = (rnd64() & 1) ? n : -n; EXP(f) = (long)rnd_below(2 * L + 2) - 2; } }
    priv_end();
    for (fi = 0; fi < 13; fi++) { char *h = hex_of_limbs(PTR(f), ABSIZ(f), SIZ(f) < 0);
      if (ABSIZ(f) && EXP(f) > 60 && (fi == 3 || fi == 12)) { free(h); continue; }
      fn_begin("gmp_printf_f"); fn_in_str("fmt", fmts[fi]); fn_in_str("mant", h); fn_in_int("exp", (long)EXP(f)); fn_in_int("sz", (long)SIZ(f)); fn_in_int("prec", (long)PREC(f)); fn_mid();
      priv_begin(); ret = gmp_snprintf(g, sizeof g, fmts[fi], f); priv_end();
      { char *t = g; while (*t == ' ' || *t == '+') t++; fn_out_str("text", t); fn_out_int("ret", ret - (int)(t - g)); } fn_end(); free(h); }
    priv_begin(); mpf_clear(f); priv_end();
  }
}
