/* C14: kernels that some CPU directories provide only as assembly (their C reference is the fallback definition in
   gmp-impl.h): addlsh/sublsh, rsh1add/rsh1sub, shift-by-constant forms, double/half/not/store, lshiftc, mul_2/addmul_2,
   the three-operand add/sub kernels, sumdiff.  Every n mod 8 over several periods, carry chains, in-place forms. */
#include "util.h"
#define EV2(name, call) do { fn_begin(name); fn_in_limbs("a", a, n); fn_in_limbs("b", b, n); fn_in_int("n", n); fn_mid(); gb_fill(r, n); cy = (call); fn_out_limbs("r", r, n); fn_out_u64("cy", cy); fn_end(); } while (0)
void drv_c14_kern(int tier, unsigned long seed, const char *extra) {
  shard_t sh = shard_parse(extra); long x = 0; mp_size_t n; int kind, place;
  mp_size_t maxn = tier ? 70 : 36;
  for (n = 1; n <= maxn; n++) for (kind = 0; kind < NKINDS; kind++) {
    x++; if (!MINE(sh, x)) continue;
    rec_reset("c14_kern", x, seed);
    for (place = 0; place < 2; place++) {
      mp_ptr a = gb_get(0, n, place), b = gb_get(1, n, place), c = gb_get(2, n, place), r = gb_get(3, n + 2, place), d = gb_get(4, n + 2, place); mp_limb_t cy; unsigned sh1 = 1 + (unsigned)rnd_below(63);
      rnd_limbs(a, n, kind); rnd_limbs(b, n, (kind + 3) % NKINDS); rnd_limbs(c, n, (kind + 5) % NKINDS);
      if (kind == 1) { rnd_limbs(b, n, 1); rnd_limbs(c, n, 1); }
#if defined(mpn_addlsh1_n) || HAVE_NATIVE_mpn_addlsh1_n
      fn_begin("mpn_addlsh_n"); fn_in_limbs("a", a, n); fn_in_limbs("b", b, n); fn_in_int("n", n); fn_in_int("c", 1); fn_mid(); gb_fill(r, n); cy = mpn_addlsh1_n(r, a, b, n); fn_out_limbs("r", r, n); fn_out_u64("cy", cy); fn_end();
#endif
#if defined(mpn_sublsh1_n) || HAVE_NATIVE_mpn_sublsh1_n
      fn_begin("mpn_sublsh_n"); fn_in_limbs("a", a, n); fn_in_limbs("b", b, n); fn_in_int("n", n); fn_in_int("c", 1); fn_mid(); gb_fill(r, n); cy = mpn_sublsh1_n(r, a, b, n); fn_out_limbs("r", r, n); fn_out_u64("cy", cy); fn_end();
#endif
#if HAVE_NATIVE_mpn_addlsh_n
      fn_begin("mpn_addlsh_n"); fn_in_limbs("a", a, n); fn_in_limbs("b", b, n); fn_in_int("n", n); fn_in_int("c", sh1); fn_mid(); gb_fill(r, n); cy = mpn_addlsh_n(r, a, b, n, sh1); fn_out_limbs("r", r, n); fn_out_u64("cy", cy); fn_end();
#endif
#if HAVE_NATIVE_mpn_sublsh_n
      fn_begin("mpn_sublsh_n"); fn_in_limbs("a", a, n); fn_in_limbs("b", b, n); fn_in_int("n", n); fn_in_int("c", sh1); fn_mid(); gb_fill(r, n); cy = mpn_sublsh_n(r, a, b, n, sh1); fn_out_limbs("r", r, n); fn_out_u64("cy", cy); fn_end();
#endif
#if HAVE_NATIVE_mpn_rsh1add_n
      EV2("mpn_rsh1add_n", mpn_rsh1add_n(r, a, b, n));
#endif
#if HAVE_NATIVE_mpn_rsh1sub_n
      EV2("mpn_rsh1sub_n", mpn_rsh1sub_n(r, a, b, n));
#endif
      /* constant shifts (macros fall back to mpn_lshift / mpn_rshift where no kernel exists) */
      fn_begin("mpn_lshift"); fn_in_limbs("a", a, n); fn_in_int("n", n); fn_in_int("cnt", 1); fn_in_int("off", -2); fn_mid(); gb_fill(r, n); cy = mpn_lshift1(r, a, n); fn_out_limbs("r", r, n); fn_out_u64("cy", cy); fn_end();
      fn_begin("mpn_rshift"); fn_in_limbs("a", a, n); fn_in_int("n", n); fn_in_int("cnt", 1); fn_in_int("off", -2); fn_mid(); gb_fill(r, n); cy = mpn_rshift1(r, a, n); fn_out_limbs("r", r, n); fn_out_u64("cy", cy); fn_end();
      fn_begin("mpn_lshift"); fn_in_limbs("a", a, n); fn_in_int("n", n); fn_in_int("cnt", 2); fn_in_int("off", -2); fn_mid(); gb_fill(r, n); cy = mpn_lshift2(r, a, n); fn_out_limbs("r", r, n); fn_out_u64("cy", cy); fn_end();
      fn_begin("mpn_rshift"); fn_in_limbs("a", a, n); fn_in_int("n", n); fn_in_int("cnt", 2); fn_in_int("off", -2); fn_mid(); gb_fill(r, n); cy = mpn_rshift2(r, a, n); fn_out_limbs("r", r, n); fn_out_u64("cy", cy); fn_end();
      MPN_COPY(d, a, n); fn_begin("mpn_lshift"); fn_in_limbs("a", d, n); fn_in_int("n", n); fn_in_int("cnt", 1); fn_in_int("off", -3); fn_mid(); cy = mpn_double(d, n); fn_out_limbs("r", d, n); fn_out_u64("cy", cy); fn_end();
      MPN_COPY(d, a, n); fn_begin("mpn_rshift"); fn_in_limbs("a", d, n); fn_in_int("n", n); fn_in_int("cnt", 1); fn_in_int("off", -3); fn_mid(); cy = mpn_half(d, n); fn_out_limbs("r", d, n); fn_out_u64("cy", cy); fn_end();
      MPN_COPY(d, a, n); fn_begin("mpn_com_n"); fn_in_limbs("a", d, n); fn_in_int("n", n); fn_mid(); mpn_not(d, n); fn_out_limbs("r", d, n); fn_end();
      { mp_limb_t val = rnd64(); fn_begin("mpn_store"); fn_in_int("n", n); fn_in_u64("val", val); fn_mid(); gb_fill(r, n); mpn_store(r, n, val); fn_out_limbs("r", r, n); fn_end(); }
#if HAVE_NATIVE_mpn_lshiftc
      fn_begin("mpn_lshiftc"); fn_in_limbs("a", a, n); fn_in_int("n", n); fn_in_int("cnt", sh1); fn_mid(); gb_fill(r, n); cy = mpn_lshiftc(r, a, n, sh1); fn_out_limbs("r", r, n); fn_out_u64("cy", cy); fn_end();
#endif
#if HAVE_NATIVE_mpn_mul_2
      { mp_limb_t v2[2]; v2[0] = rnd64(); v2[1] = rnd64() | 1; memset(d, 0, (n + 2) * 8);
        fn_begin("mpn_mul_2"); fn_in_limbs("a", a, n); fn_in_limbs("b", v2, 2); fn_in_limbs("r0", d, 1); fn_in_int("n", n); fn_mid(); gb_fill(r, n + 1); cy = mpn_mul_2(r, a, n, v2); fn_out_limbs("r", r, n + 1); fn_out_u64("cy", cy); fn_end(); }
#endif
#if HAVE_NATIVE_mpn_addmul_2
      { mp_limb_t v2[2]; v2[0] = rnd64(); v2[1] = rnd64(); rnd_limbs(r, n + 1, (kind + 1) % NKINDS); r[n] = 0;     /* rp[n] is written, not read, by addmul_2 */
        fn_begin("mpn_addmul_2"); fn_in_limbs("a", a, n); fn_in_limbs("b", v2, 2); fn_in_limbs("r0", r, n); fn_in_int("n", n); fn_mid(); cy = mpn_addmul_2(r, a, n, v2); fn_out_limbs("r", r, n + 1); fn_out_u64("cy", cy); fn_end(); }
#endif
      /* three-operand kernels incl. in-place destinations */
      fn_begin("mpn_addadd_n"); fn_in_limbs("a", a, n); fn_in_limbs("b", b, n); fn_in_limbs("c", c, n); fn_in_int("n", n); fn_mid(); gb_fill(r, n); cy = mpn_addadd_n(r, a, b, c, n); fn_out_limbs("r", r, n); fn_out_u64("cy", cy); fn_end();
      fn_begin("mpn_subadd_n"); fn_in_limbs("a", a, n); fn_in_limbs("b", b, n); fn_in_limbs("c", c, n); fn_in_int("n", n); fn_mid(); gb_fill(r, n); cy = mpn_subadd_n(r, a, b, c, n); fn_out_limbs("r", r, n); fn_out_u64("cy", cy); fn_end();
      { int ci; fn_begin("mpn_addsub_n"); fn_in_limbs("a", a, n); fn_in_limbs("b", b, n); fn_in_limbs("c", c, n); fn_in_int("n", n); fn_mid(); gb_fill(r, n); ci = mpn_addsub_n(r, a, b, c, n); fn_out_limbs("r", r, n); fn_out_int("cyi", ci); fn_end();
        MPN_COPY(d, a, n); fn_begin("mpn_addsub_n"); fn_in_limbs("a", d, n); fn_in_limbs("b", b, n); fn_in_limbs("c", c, n); fn_in_int("n", n); fn_mid(); ci = mpn_addsub_n(d, d, b, c, n); fn_out_limbs("r", d, n); fn_out_int("cyi", ci); fn_end();
        MPN_COPY(d, c, n); fn_begin("mpn_addadd_n"); fn_in_limbs("a", a, n); fn_in_limbs("b", b, n); fn_in_limbs("c", d, n); fn_in_int("n", n); fn_mid(); cy = mpn_addadd_n(d, a, b, d, n); fn_out_limbs("r", d, n); fn_out_u64("cy", cy); fn_end(); }
      /* sumdiff / nsumdiff: separate operands and every permitted identity of a destination with an operand
         (s==x&&d==y and s==y&&d==x take a heap temporary; s==x, s==y, d==x, d==y take the other two branches) */
      { int w, al; for (w = 0; w < 2; w++) for (al = 0; al < 7; al++) { mp_limb_t ret; mp_ptr x = gb_get(5, n, place), y = gb_get(6, n, place), sp, dp;
          MPN_COPY(x, a, n); MPN_COPY(y, b, n); gb_fill(r, n); gb_fill(d, n);
          sp = al == 1 || al == 3 ? x : al == 2 || al == 4 ? y : r;      /* 1: s=x,d=y  2: s=y,d=x  3: s=x  4: s=y  5: d=x  6: d=y */
          dp = al == 1 || al == 6 ? y : al == 2 || al == 5 ? x : d;
          fn_begin(w ? "mpn_nsumdiff_n" : "mpn_sumdiff_n"); fn_in_limbs("a", x, n); fn_in_limbs("b", y, n); fn_in_int("n", n); fn_in_int("al", al); fn_mid();
          ret = w ? mpn_nsumdiff_n(sp, dp, x, y, n) : mpn_sumdiff_n(sp, dp, x, y, n);
          fn_out_limbs("s", sp, n); fn_out_limbs("d", dp, n); fn_out_int("ret", (long)ret); fn_end(); } }
      { mp_limb_t ret; fn_begin("mpn_sumdiff_n"); fn_in_limbs("a", a, n); fn_in_limbs("b", b, n); fn_in_int("n", n); fn_mid(); gb_fill(r, n); gb_fill(d, n); ret = mpn_sumdiff_n(r, d, a, b, n); fn_out_limbs("s", r, n); fn_out_limbs("d", d, n); fn_out_int("ret", (long)ret); fn_end(); }
      /* error-term kernels (mpn_add_err1_n ...): r = a +- b +- cy, the carry out, and the two-limb sums of the y limbs selected by the carries; both carry-in
         values, equal operands (the borrow chain runs through), destination = either source */
      { int w, cin, ip; mp_limb_t e[4]; mp_ptr y1 = gb_get(5, n, place), y2 = gb_get(6, n, place);
        rnd_limbs(y1, n, (kind + 2) % NKINDS); rnd_limbs(y2, n, (kind + 4) % NKINDS);
        for (w = 0; w < 4; w++) for (cin = 0; cin < 2; cin++) for (ip = 0; ip < 3; ip++) { static const char *nm[] = {"mpn_add_err1_n", "mpn_sub_err1_n", "mpn_add_err2_n", "mpn_sub_err2_n"};
          mp_srcptr s1 = a, s2 = (ip == 2 || kind == 6) && cin ? a : b; mp_ptr dst = r; mp_limb_t ret;
          if ((n + w + cin + ip) % 3 == 1 && n > 8) continue;
          if (ip == 1) { MPN_COPY(d, a, n); s1 = d; dst = d; if (s2 == a) s2 = d; }
          fn_begin(nm[w]); fn_in_limbs("a", s1, n); fn_in_limbs("b", s2, n); fn_in_limbs("y1", y1, n); fn_in_limbs("y2", y2, n); fn_in_int("n", n); fn_in_int("cy", cin); fn_mid();
          if (dst == r) gb_fill(r, n); e[0] = e[1] = e[2] = e[3] = 0x5a5a;
          ret = w == 0 ? mpn_add_err1_n(dst, s1, s2, e, y1, n, cin) : w == 1 ? mpn_sub_err1_n(dst, s1, s2, e, y1, n, cin) : w == 2 ? mpn_add_err2_n(dst, s1, s2, e, y1, y2, n, cin) : mpn_sub_err2_n(dst, s1, s2, e, y1, y2, n, cin);
          fn_out_limbs("r", dst, n); fn_out_u64("ret", ret); fn_out_limbs("e1", e, 2); fn_out_limbs("e2", e + 2, 2); fn_end(); } }
    }
  }
}
