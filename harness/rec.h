/* rec.h -- conformance harness core: recording allocator, pool of objects, trace emission.
   Trace format: ndjson, see DESIGN.md appendix A (as built: values are hex strings). */
#ifndef VERIF_REC_H
#define VERIF_REC_H
#include <stdio.h>
#include <stdlib.h>
#include <string.h>
#include <stdint.h>
#include <setjmp.h>
#include "mpir.h"
#include "gmp-impl.h"
#include "longlong.h"

#define NZ 16      /* mpz pool: 0..7 plain integers, 8..15 = num/den of rationals 0..3 */
#define NQ 4
#define NF 6
#define NR 3

extern __thread FILE *tr;        /* trace output (thread-local: worker threads of the C15 driver write to their own buffers) */
extern int rec_threaded;
extern mpz_t  Zp[NZ];            /* Zp[8+2k], Zp[9+2k] alias the numerator/denominator of Qp[k] (by struct copy-back, see rec.c) */
extern mpq_t  Qp[NQ];
extern mpf_t  Fp[NF];
extern gmp_randstate_t Rp[NR];
extern int zlive[NZ], qlive[NQ], flive[NF], rlive[NR];
extern long n_events, n_calls;

/* --- setup --- */
void rec_init(const char *path);            /* open trace, install recording allocator and signal handlers */
void rec_finish(void);
void rec_reset(const char *drv, long exec_id, unsigned long seed);   /* new execution: forget pool + heap, emit reset */
void rec_quiesce(void);                     /* emit quiesce (driver has cleared everything) */
void rec_alloc_logging(int on);             /* switch allocator event logging (on by default) */
long rec_live_blocks(void);
extern int rec_ret_caller_buf;
void gw_load(const char *exe); void gw_snapshot(void); void gw_diff_emit(void);   /* global-write detector */
size_t rec_block_size(void *p);                 /* size the allocator was asked for (0 if unknown) */

/* --- deterministic PRNG for drivers (never MPIR's) --- */
void     rnd_seed(uint64_t s);
uint64_t rnd64(void);
uint64_t rnd_below(uint64_t n);             /* uniform in [0,n) */
mp_limb_t rnd_limb_pattern(int kind);
/* fill n limbs: kind 0 uniform, 1 all ones, 2 single bit, 3 long runs (rrandom like), 4 zero-heavy, 5 B-1/0/1 corners mix, 6 top-bit pattern */
void rnd_limbs(mp_ptr p, mp_size_t n, int kind);
#define NKINDS 7

/* --- JSON emission helpers --- */
void j_hex_limbs(const mp_limb_t *p, mp_size_t n);              /* prints "hex" of the natural number {p,n} */
void j_hex_signed(const mp_limb_t *p, mp_size_t sz);            /* sz signed like SIZ */
void j_hex_u64(uint64_t v);
void j_hex_s64(int64_t v);
void j_str(const char *s);                                      /* JSON-escaped string */
void j_strn(const char *s, size_t n);
void j_double(double d);                                        /* [sign,exp11,hi26,lo26] */

/* --- stateless function events ("fn") --- */
void fn_begin(const char *f);
void fn_in_limbs(const char *k, const mp_limb_t *p, mp_size_t n);
void fn_in_int(const char *k, long v);
void fn_in_u64(const char *k, uint64_t v);
void fn_in_str(const char *k, const char *s);
void fn_in_raw(const char *k, const char *json);               /* pre-formatted JSON value (e.g. an array of numerals) */
void fn_mid(void);                                               /* inputs done; outputs follow (call the function between fn_begin..fn_mid? no: inputs are logged BEFORE the call, outputs after) */
void fn_out_limbs(const char *k, const mp_limb_t *p, mp_size_t n);
void fn_out_int(const char *k, long v);
void fn_out_raw(const char *k, const char *json);
void fn_out_u64(const char *k, uint64_t v);
void fn_out_str(const char *k, const char *s);
void fn_out_strn(const char *k, const char *s, size_t n);
void fn_end(void);

/* --- pooled calls --- */
/* argument kinds */
enum { K_END = 0, K_ZO, K_ZI, K_ZIO, K_QO, K_QI, K_QIO, K_FO, K_FI, K_FIO, K_R, K_U, K_S, K_B, K_I, K_D, K_STR, K_SZ };
typedef struct {
  int kind;
  int idx;            /* pool index for object kinds */
  uint64_t u;         /* U, B, SZ */
  int64_t s;          /* S, I */
  double d;
  const char *str;
} arg_t;
/* return kinds */
enum { RT_VOID = 0, RT_INT, RT_U, RT_S, RT_B, RT_D, RT_STR, RT_SZ };
typedef struct {
  int kind;
  int64_t s; uint64_t u; double d; char *str;
} ret_t;
typedef struct api_fn {
  const char *name;
  int nargs;
  int kinds[8];
  int rkind;
  void (*glue)(arg_t *a, ret_t *r);
} api_fn;
extern const api_fn api_table[];
extern const int api_count;
const api_fn *api_find(const char *name);

/* performs the call with begin/end events, pool diff; returns 0, or the signal number if the call raised one */
int  do_call(const api_fn *f, arg_t *a, ret_t *r);
/* convenience: call by name with a compact argument list; object args = pool index, scalars by kind */
int  callf(const char *name, ...);     /* varargs follow the function's kinds: int for objects/I, uint64_t for U/B/SZ, int64_t for S, double for D, char* for STR */
extern ret_t last_ret;

/* free a string returned by the library with the size the manual documents (strlen+1); logged as a "hfree" event */
void rec_free_str(char *s);

/* objects: the driver initialises/clears through callf("mpz_init",i) etc. so that the specification sees it */
void pool_sync(void);   /* re-snapshot shadows (after the driver manipulated objects directly, which it should not) */

/* misc */
extern sigjmp_buf rec_jmp; extern volatile int rec_jmp_armed;
void rec_note(const char *fmt, ...);     /* {"e":"note",...} lines are skipped by the trace spec? no: notes go to stderr only */
#endif
