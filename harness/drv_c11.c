/* C11: comparisons and conversions to/from C types.  Integers, rationals and floats around every C type boundary
   (0, +-1, 2^15, 2^16, 2^31, 2^32, 2^63, 2^64 and +-1 of these, both signs); doubles incl. +-0, subnormals, the 2^53
   neighbourhood, values whose truncation differs from rounding, huge exponents, infinities. */
#include "util.h"
#include <math.h>
static const int BND[] = {0, 1, 7, 8, 15, 16, 31, 32, 52, 53, 54, 62, 63, 64, 65, 127, 128};
static double dbl_of(int k) {
  static const double base[] = {0.0, -0.0, 1.0, -1.0, 0.5, 1.5, -2.5, 4.9406564584124654e-324, 2.2250738585072009e-308, 2.2250738585072014e-308, 9007199254740991.0, 9007199254740992.0, 9007199254740994.0,
    -9007199254740993.0, 4294967295.0, 4294967296.0, 2147483648.0, -2147483649.0, 9223372036854775808.0, -9223372036854775808.0, 18446744073709551616.0, 1.8446744073709552e19, 1e22, 1e300, -1e300,
    1.7976931348623157e308, 32767.0, 32768.0, -32769.0, 65535.5, 65536.0, 0.99999999999999989, 123456789.987654321};
  int n = sizeof base / sizeof base[0];
  if (k < n) return base[k];
  if (k == n) return INFINITY; if (k == n + 1) return -INFINITY;
  return ldexp((double)(rnd64() >> 11) + 0.0, (int)rnd_below(200) - 100) * ((rnd64() & 1) ? 1 : -1);
}
#define NDBL 38
void drv_c11(int tier, unsigned long seed, const char *extra) {
  shard_t sh = shard_parse(extra); long x = 0; int bi, d, s, j;
  for (bi = 0; bi < 17; bi++) for (d = -1; d <= 2; d++) {
    x++; if (!MINE(sh, x)) continue;
    if (sh.pure && (x % 9 || bi > 8)) continue;
    rec_reset("c11", x, seed);
    for (j = 0; j < 3; j++) callf("mpz_init", j); callf("mpq_init", 0); callf("mpq_init", 1); callf("mpf_init2", 0, (uint64_t)(64 + 64 * rnd_below(4))); callf("mpf_init2", 1, (uint64_t)256);
    for (s = 0; s < 2; s++) {
      /* v = +-(2^b + d) ; d = 2: 2^b * random odd part with more than 53 bits */
      callf("mpz_set_ui", 0, (uint64_t)1); callf("mpz_mul_2exp", 0, 0, (uint64_t)BND[bi]);
      if (d == 2) { callf("drv_rndz", 1, 2, 0, 0); callf("mpz_mul", 0, 0, 1); } else if (d == 1) callf("mpz_add_ui", 0, 0, (uint64_t)1); else if (d == -1) callf("mpz_sub_ui", 0, 0, (uint64_t)1);
      if (s) callf("mpz_neg", 0, 0);
      callf("mpz_get_ui", 0); callf("mpz_get_si", 0); callf("mpz_get_ux", 0); callf("mpz_get_sx", 0); callf("mpz_get_d", 0); callf("mpz_get_d_2exp", 0);
      callf("mpz_fits_ulong_p", 0); callf("mpz_fits_slong_p", 0); callf("mpz_fits_uint_p", 0); callf("mpz_fits_sint_p", 0); callf("mpz_fits_ushort_p", 0); callf("mpz_fits_sshort_p", 0);
      callf("mpz_fits_ui_p", 0); callf("mpz_fits_si_p", 0); callf("mpz_sgn", 0); callf("mpz_size", 0); callf("mpz_odd_p", 0); callf("mpz_even_p", 0);
      /* set/get round trips through the C types */
      { uint64_t u = mpz_get_ui(Zp[0]); int64_t si = (int64_t)u;
        callf("mpz_set_ui", 1, u); callf("mpz_cmp", 0, 1); callf("mpz_cmpabs", 0, 1); callf("mpz_cmp_ui", 0, u); callf("mpz_cmpabs_ui", 0, u); callf("mpz_cmp_ui", 0, u + 1); callf("mpz_cmp_ui", 0, u - 1);
        callf("mpz_set_si", 1, si); callf("mpz_cmp", 0, 1); callf("mpz_cmp_si", 0, si); callf("mpz_cmp_si", 0, -si); callf("mpz_cmp_si", 0, si + 1);
        callf("mpz_set_ux", 1, u); callf("mpz_set_sx", 1, si); callf("mpz_clear", 2); callf("mpz_init_set_ui", 2, u); callf("mpz_clear", 2); callf("mpz_init_set_si", 2, si); }
      /* the value against every boundary long / unsigned long (not only those derived from itself) */
      { static const int64_t bs[] = {0, 1, -1, 2, -2, 32767, -32768, 65535, 2147483647L, -2147483648L, 4294967295L, 0x7fffffffffffffffL, -0x7fffffffffffffffL - 1, -0x7fffffffffffffffL, 0x4000000000000000L, -0x4000000000000001L};
        static const uint64_t bu[] = {0, 1, 2, 65535, 65536, 0xffffffffUL, 0x100000000UL, 0x7fffffffffffffffUL, 0x8000000000000000UL, 0x8000000000000001UL, 0xfffffffffffffffeUL, 0xffffffffffffffffUL};
        for (j = 0; j < 16; j++) callf("mpz_cmp_si", 0, bs[j]);
        for (j = 0; j < 12; j++) { callf("mpz_cmp_ui", 0, bu[j]); callf("mpz_cmpabs_ui", 0, bu[j]); } }
      for (j = 0; j < NDBL + 4; j++) { double dv = dbl_of(j);
        if (sh.pure && (j % 5 || fabs(dv) > 1e40 || (dv != 0 && fabs(dv) < 1e-40))) continue;       /* pure TLA+ arithmetic: moderate exponents only */
        callf("mpz_cmp_d", 0, dv); callf("mpz_cmpabs_d", 0, dv);
        if (isfinite(dv)) { callf("mpz_set_d", 1, dv); callf("mpz_cmp", 0, 1); callf("mpz_clear", 2); callf("mpz_init_set_d", 2, dv);
          callf("mpq_set_d", 0, dv); callf("mpq_get_d", 0); callf("mpf_set_d", 0, dv); callf("mpf_get_d", 0); callf("mpf_cmp_d", 1, dv); } }
      /* the double nearest above and below the value itself */
      { double dv = mpz_get_d(Zp[0]); callf("mpz_cmp_d", 0, dv); callf("mpz_cmp_d", 0, nextafter(dv, INFINITY)); callf("mpz_cmp_d", 0, nextafter(dv, -INFINITY)); callf("mpz_cmpabs_d", 0, -dv); }
      /* rational: quotient sitting at the boundary (v*k+r)/k */
      for (j = 0; j < 3; j++) { uint64_t k = j == 0 ? 1 : j == 1 ? 3 : (rnd64() >> 20) | 1;
        callf("mpz_mul_ui", 1, 0, k); if (j) callf("mpz_add_ui", 1, 1, (uint64_t)(j == 1 ? 1 : k - 1)); callf("mpq_set_z", 0, 1); callf("mpz_set_ui", 2, k); callf("mpq_set_den", 0, 2); callf("mpq_canonicalize", 0);
        callf("mpq_get_d", 0); callf("mpq_cmp_z", 0, 0); callf("mpq_set_z", 1, 0); callf("mpq_cmp", 0, 1); callf("mpq_cmp", 1, 0); callf("mpq_equal", 0, 1); callf("mpq_cmp_ui", 0, (uint64_t)mpz_get_ui(Zp[0]), (uint64_t)1);
        callf("mpq_cmp_si", 0, (int64_t)mpz_get_ui(Zp[0]), (uint64_t)1); callf("mpz_set_q", 2, 0); callf("mpq_sgn", 0); }
      /* float with a fraction part just above / below the integer */
      callf("mpf_set_z", 1, 0); callf("mpf_get_ui", 1); callf("mpf_get_si", 1); callf("mpf_get_d", 1); callf("mpf_get_d_2exp", 1);
      callf("mpf_fits_ulong_p", 1); callf("mpf_fits_slong_p", 1); callf("mpf_fits_uint_p", 1); callf("mpf_fits_sint_p", 1); callf("mpf_fits_ushort_p", 1); callf("mpf_fits_sshort_p", 1); callf("mpf_fits_ui_p", 1); callf("mpf_fits_si_p", 1);
      callf("mpf_set_ui", 0, (uint64_t)1); callf("mpf_div_2exp", 0, 0, (uint64_t)(1 + rnd_below(60)));
      callf("mpf_add", 1, 1, 0); callf("mpf_fits_slong_p", 1); callf("mpf_fits_ulong_p", 1); callf("mpf_fits_sint_p", 1); callf("mpf_fits_ushort_p", 1); callf("mpf_get_si", 1); callf("mpf_get_ui", 1); callf("mpf_integer_p", 1);
      callf("mpf_sub", 1, 1, 0); callf("mpf_sub", 1, 1, 0); callf("mpf_fits_slong_p", 1); callf("mpf_fits_ulong_p", 1); callf("mpf_fits_sint_p", 1); callf("mpf_fits_sshort_p", 1); callf("mpf_get_si", 1); callf("mpf_get_ui", 1);
      callf("mpf_cmp_ui", 1, (uint64_t)mpz_get_ui(Zp[0])); callf("mpf_cmp_si", 1, (int64_t)mpz_get_ui(Zp[0])); callf("mpf_set_z", 0, 0); callf("mpf_cmp", 1, 0); callf("mpf_cmp", 0, 1); callf("mpz_set_f", 2, 1);
    }
    for (j = 0; j < 3; j++) callf("mpz_clear", j); callf("mpq_clear", 0); callf("mpq_clear", 1); callf("mpf_clear", 0); callf("mpf_clear", 1);
    rec_quiesce();
  }
}
