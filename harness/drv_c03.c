/* C03: add, subtract, negate, shift, copy -- mpn kernels on guarded buffers (fn events) and the mpz functions built on them */
#include "util.h"

static void ev3(const char *f, mp_ptr rp, mp_srcptr ap, mp_srcptr bp, mp_size_t n, int which) {
  mp_limb_t cy = 0;
  fn_begin(f); fn_in_limbs("a", ap, n); fn_in_limbs("b", bp, n); fn_in_int("n", n); fn_in_int("ov", (rp == ap) + 2 * (rp == bp)); fn_mid();
  switch (which) { case 0: cy = mpn_add_n(rp, ap, bp, n); break; case 1: cy = mpn_sub_n(rp, ap, bp, n); break; }
  fn_out_limbs("r", rp, n); fn_out_u64("cy", cy); fn_end();
}
static void one_size(mp_size_t n, int kind, int place) {
  mp_ptr a = gb_get(0, n, place), b = gb_get(1, n, place), r = gb_get(2, n, place), t;
  mp_limb_t cy; int w, cnt; mp_size_t k, m;
  rnd_limbs(a, n, kind); rnd_limbs(b, n, (kind + (rnd64() % 3)) % NKINDS);
  /* full carry chains: b = ~a + {0,1}, or a = B^n-1 */
  if (kind == 1) { for (k = 0; k < n; k++) b[k] = 0; b[0] = rnd64() & 1; }
  if (kind == 5 && (rnd64() & 1)) { for (k = 0; k < n; k++) b[k] = ~a[k]; if (rnd64() & 1) mpn_add_1(b, b, n, 1); }
  for (w = 0; w < 2; w++) {
    gb_fill(r, n); ev3(w ? "mpn_sub_n" : "mpn_add_n", r, a, b, n, w);
    /* in place: r = a op b with rp == ap, rp == bp */
    MPN_COPY(r, a, n); ev3(w ? "mpn_sub_n" : "mpn_add_n", r, r, b, n, w);
    MPN_COPY(r, b, n); ev3(w ? "mpn_sub_n" : "mpn_add_n", r, a, r, n, w);
  }
  /* equal operands (cancellation) */
  ev3("mpn_sub_n", r, a, a, n, 1); ev3("mpn_add_n", r, a, a, n, 0);
  /* mpn_add / mpn_sub with every split an >= bn */
  for (m = 1; m <= n; m += (n > 12 ? 1 + rnd_below(n / 4 + 1) : 1)) {
    for (w = 0; w < 2; w++) {
      fn_begin(w ? "mpn_sub" : "mpn_add"); fn_in_limbs("a", a, n); fn_in_int("an", n); fn_in_limbs("b", b, m); fn_in_int("bn", m); fn_mid();
      gb_fill(r, n); cy = w ? mpn_sub(r, a, n, b, m) : mpn_add(r, a, n, b, m);
      fn_out_limbs("r", r, n); fn_out_u64("cy", cy); fn_end();
    }
  }
  /* single-limb add/sub incl. in place */
  for (w = 0; w < 4; w++) {
    mp_limb_t v = w < 2 ? 1 : rnd_limb_pattern(w);
    mp_ptr dst = (w & 1) ? r : a;
    if (dst == r) gb_fill(r, n);
    fn_begin(w < 2 ? "mpn_add_1" : "mpn_sub_1"); fn_in_limbs("a", a, n); fn_in_int("n", n); fn_in_u64("b", v); fn_mid();
    t = gb_get(3, n, place); MPN_COPY(t, a, n);
    cy = w < 2 ? mpn_add_1(dst, a, n, v) : mpn_sub_1(dst, a, n, v);
    fn_out_limbs("r", dst, n); fn_out_u64("cy", cy); fn_end();
    MPN_COPY(a, t, n);
  }
  /* neg, com */
  fn_begin("mpn_neg_n"); fn_in_limbs("a", a, n); fn_in_int("n", n); fn_mid(); gb_fill(r, n); cy = mpn_neg_n(r, a, n); fn_out_limbs("r", r, n); fn_out_u64("cy", cy); fn_end();
  fn_begin("mpn_com_n"); fn_in_limbs("a", a, n); fn_in_int("n", n); fn_mid(); gb_fill(r, n); mpn_com_n(r, a, n); fn_out_limbs("r", r, n); fn_end();
  /* shifts: all counts for small n, sampled otherwise; separate, in place, and permitted partial overlap */
  for (cnt = 1; cnt < 64; cnt += (n <= 9 ? 1 : 1 + rnd_below(9))) {
    mp_size_t off = rnd_below(n + 1);        /* rp = sp + off for lshift (rp >= sp), rp = sp - off for rshift */
    mp_ptr big = gb_get(4, 2 * n + 2, place);
    fn_begin("mpn_lshift"); fn_in_limbs("a", a, n); fn_in_int("n", n); fn_in_int("cnt", cnt); fn_in_int("off", -1); fn_mid();
    gb_fill(r, n); cy = mpn_lshift(r, a, n, cnt); fn_out_limbs("r", r, n); fn_out_u64("cy", cy); fn_end();
    fn_begin("mpn_rshift"); fn_in_limbs("a", a, n); fn_in_int("n", n); fn_in_int("cnt", cnt); fn_in_int("off", -1); fn_mid();
    gb_fill(r, n); cy = mpn_rshift(r, a, n, cnt); fn_out_limbs("r", r, n); fn_out_u64("cy", cy); fn_end();
    /* overlapping: source at big+0.., destination at big+off (lshift); source at big+off, destination at big (rshift) */
    MPN_COPY(big, a, n);
    fn_begin("mpn_lshift"); fn_in_limbs("a", big, n); fn_in_int("n", n); fn_in_int("cnt", cnt); fn_in_int("off", off); fn_mid();
    cy = mpn_lshift(big + off, big, n, cnt); fn_out_limbs("r", big + off, n); fn_out_u64("cy", cy); fn_end();
    MPN_COPY(big + off, a, n);
    fn_begin("mpn_rshift"); fn_in_limbs("a", big + off, n); fn_in_int("n", n); fn_in_int("cnt", cnt); fn_in_int("off", off); fn_mid();
    cy = mpn_rshift(big, big + off, n, cnt); fn_out_limbs("r", big, n); fn_out_u64("cy", cy); fn_end();
  }
  /* copies with overlap in the permitted direction, zero, cmp, zero_p */
  { mp_size_t offs[6], off; int no = 0, oi; mp_ptr big = gb_get(4, 2 * n + 2, place);
    /* every distance class: none, one limb, all but one limb (overlap of exactly one limb), exactly n (adjacent), a seeded one; every distance for short operands */
    offs[no++] = 0; offs[no++] = 1 <= n ? 1 : 0; offs[no++] = n > 1 ? n - 1 : 0; offs[no++] = n; offs[no++] = rnd_below(n + 1); offs[no++] = n > 2 ? n - 2 : 0;
   for (oi = 0; oi < (n <= 16 ? (int)n + 1 : no); oi++) { off = n <= 16 ? oi : offs[oi];
    MPN_COPY(big + off, a, n);
    fn_begin("mpn_copyi"); fn_in_limbs("a", big + off, n); fn_in_int("n", n); fn_in_int("off", off); fn_mid(); mpn_copyi(big, big + off, n); fn_out_limbs("r", big, n); fn_end();
    MPN_COPY(big, a, n);
    fn_begin("mpn_copyd"); fn_in_limbs("a", big, n); fn_in_int("n", n); fn_in_int("off", off); fn_mid(); mpn_copyd(big + off, big, n); fn_out_limbs("r", big + off, n); fn_end(); }
    fn_begin("mpn_zero"); fn_in_int("n", n); fn_mid(); gb_fill(r, n); mpn_zero(r, n); fn_out_limbs("r", r, n); fn_end();
    MPN_COPY(r, a, n); if (rnd64() & 1) r[rnd_below(n)] ^= (mp_limb_t)1 << rnd_below(64);
    fn_begin("mpn_cmp"); fn_in_limbs("a", a, n); fn_in_limbs("b", r, n); fn_in_int("n", n); fn_mid(); fn_out_int("ret", mpn_cmp(a, r, n)); fn_end();
    fn_begin("mpn_zero_p"); fn_in_limbs("a", a, n); fn_in_int("n", n); fn_mid(); fn_out_int("ret", mpn_zero_p(a, n)); fn_end();
    mpn_zero(r, n);
    fn_begin("mpn_zero_p"); fn_in_limbs("a", r, n); fn_in_int("n", n); fn_mid(); fn_out_int("ret", mpn_zero_p(r, n)); fn_end();
  }
}
mp_limb_t rnd_limb_pattern(int k) { static const mp_limb_t c[] = {1, ~(mp_limb_t)0, (mp_limb_t)1 << 63, 0}; return k < 3 ? c[k] : rnd64(); }

void drv_c03_mpn(int tier, unsigned long seed, const char *extra) {
  shard_t sh = shard_parse(extra); long x = 0; mp_size_t n; int kind, place;
  mp_size_t maxn = sh.pure ? 6 : (tier ? 130 : 72);
  for (n = 1; n <= maxn; n++) for (kind = 0; kind < NKINDS; kind++) {
    if (!tier && !sh.pure && n > 34 && (kind + n) % 3) continue;
    if (sh.pure && kind > 3) continue;
    x++; if (!MINE(sh, x)) continue;
    rec_reset("c03_mpn", x, seed);
    for (place = 0; place < 2; place++) one_size(n, kind, place);
  }
  if (sh.pure) return;
  /* geometric sample of long operands */
  for (n = 150; n <= (tier ? 5000 : 1200); n = n * 3 / 2 + 1) for (kind = 0; kind < NKINDS; kind += (tier ? 1 : 2)) {
    x++; if (!MINE(sh, x)) continue;
    rec_reset("c03_mpn", x, seed); one_size(n, kind, 1);
  }
}

/* ---- mpz level: every sign / relative magnitude combination, aliasing, destinations shrunk to the minimum ---- */
static void setv(int i, int limbs, int kind, int neg) { callf("drv_rndz", i, limbs, kind, neg); }
static void shrink(int i) { callf("mpz_realloc2", i, (uint64_t)(ABSIZ(Zp[i]) ? (uint64_t)ABSIZ(Zp[i]) * 64 : 1)); }
void drv_c03_mpz(int tier, unsigned long seed, const char *extra) {
  shard_t sh = shard_parse(extra); long x = 0; int la, lb, sa, sb, rel, i;
  int maxl = sh.pure ? 3 : (tier ? 40 : 12);
  static const uint64_t uis[] = {0, 1, 2, 0xffffffffUL, 0x100000000UL, 0x7fffffffffffffffUL, 0x8000000000000000UL, 0xffffffffffffffffUL};
  for (la = 0; la <= maxl; la += (la < 4 ? 1 : 1 + la / 3)) for (rel = 0; rel < 5; rel++) {
    x++; if (!MINE(sh, x)) continue;
    rec_reset("c03_mpz", x, seed);
    for (i = 0; i < 5; i++) callf("mpz_init", i);
    for (sa = 0; sa < 2; sa++) for (sb = 0; sb < 2; sb++) {
      int kind = rnd_below(NKINDS);
      /* rel: 0 equal magnitude, 1 b one limb shorter, 2 b much shorter, 3 b longer, 4 same length different value / carry chain */
      lb = rel == 0 ? la : rel == 1 ? (la ? la - 1 : 0) : rel == 2 ? (la > 1 ? 1 : 0) : rel == 3 ? la + 1 + (int)rnd_below(3) : la;
      setv(0, la, rel == 4 ? 1 : kind, sa);
      if (rel == 0) { callf("mpz_set", 1, 0); if (sa != sb) callf("mpz_neg", 1, 1); }
      else setv(1, lb, rel == 4 ? 2 : (kind + 1) % NKINDS, sb);
      for (i = 2; i < 5; i++) shrink(i);
      callf("mpz_add", 2, 0, 1); callf("mpz_sub", 3, 0, 1); callf("mpz_sub", 4, 1, 0);
      /* aliased forms */
      callf("mpz_set", 2, 0); shrink(2); callf("mpz_add", 2, 2, 1);
      callf("mpz_set", 2, 1); shrink(2); callf("mpz_add", 2, 0, 2);
      callf("mpz_set", 2, 0); shrink(2); callf("mpz_sub", 2, 2, 1);
      callf("mpz_set", 2, 1); shrink(2); callf("mpz_sub", 2, 0, 2);
      callf("mpz_set", 2, 0); callf("mpz_add", 2, 2, 2); callf("mpz_sub", 2, 2, 2);
      for (i = 0; i < 8; i++) {
        shrink(3); callf("mpz_add_ui", 3, 0, uis[i]); shrink(3); callf("mpz_sub_ui", 3, 0, uis[i]); shrink(3); callf("mpz_ui_sub", 3, uis[i], 0);
      }
      callf("mpz_set", 3, 0); callf("mpz_add_ui", 3, 3, uis[7]); callf("mpz_sub_ui", 3, 3, uis[7]); callf("mpz_ui_sub", 3, uis[7], 3);
      shrink(4); callf("mpz_neg", 4, 0); callf("mpz_neg", 4, 4); shrink(4); callf("mpz_abs", 4, 0); callf("mpz_abs", 4, 4);
      { static const int sh2[] = {0, 1, 31, 63, 64, 65, 127, 128, 200}; int j;
        for (j = 0; j < 9; j++) { shrink(4); callf("mpz_mul_2exp", 4, 0, (uint64_t)sh2[j]); }
        callf("mpz_set", 4, 0); callf("mpz_mul_2exp", 4, 4, (uint64_t)(1 + rnd_below(190))); }
      callf("mpz_swap", 0, 1); callf("mpz_swap", 2, 2);
    }
    for (i = 0; i < 5; i++) callf("mpz_clear", i);
    rec_quiesce();
  }
}
