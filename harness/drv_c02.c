/* C02: division.  mpn: tdiv_qr on shapes around every crossover with contents built by inverse construction
   (n = q*d + r with chosen q, r), dividend prefixes equal to the divisor, unnormalised divisors; the schoolbook loop
   entered directly on the special-case witnesses of the SbDivQr model; single-limb divisor classes; mpz: all families. */
#include "util.h"

static void build_dividend(mp_ptr n, mp_size_t nn, mp_srcptr d, mp_size_t dn, int how) {
  /* how: 0 random, 1 q all ones & r = d-1, 2 top limbs equal to divisor's, 3 n = d * B^k - 1, 4 corners, 5 q with B-1 limbs & r = 0 */
  mp_size_t qn = nn - dn + 1, i; mp_ptr q, t;
  switch (how) {
  case 0: rnd_limbs(n, nn, 0); break;
  case 4: rnd_limbs(n, nn, 5); break;
  case 2: rnd_limbs(n, nn, 0); for (i = 0; i < dn && i < nn; i++) if (i < 3 || (rnd64() & 1)) n[nn - 1 - i] = d[dn - 1 - i]; else break; break;
  case 3: for (i = 0; i < nn; i++) n[i] = 0; if (nn > dn) { MPN_COPY(n + nn - dn - 1, d, dn); n[nn - 1] = 0; mpn_sub_1(n, n, nn, 1); } else { MPN_COPY(n, d, dn); mpn_sub_1(n, n, nn, 1); } break;
  default: /* inverse construction: n = q*d + r, keep nn limbs (q chosen so the product fits) */
    q = gb_get(8, qn, 1); t = gb_get(9, qn + dn, 1);
    rnd_limbs(q, qn, how == 1 ? 1 : 5); q[qn - 1] = 0;   /* product fits in nn limbs */
    if (qn >= dn) mpn_mul(t, q, qn, d, dn); else mpn_mul(t, d, dn, q, qn);
    MPN_COPY(n, t, nn);
    if (how == 1) { mp_ptr r = gb_get(7, dn, 1); mpn_sub_1(r, d, dn, 1); mpn_add(n, n, nn, r, dn); }
  }
}
static void tdiv_case(mp_size_t nn, mp_size_t dn, int how, int norm, int place) {
  mp_ptr n = gb_get(0, nn, place), d = gb_get(1, dn, place), q = gb_get(2, nn - dn + 1, place), r = gb_get(3, dn, place);
  rnd_limbs(d, dn, how == 4 ? 5 : (how == 1 ? 6 : 0));
  if (norm == 1) d[dn - 1] |= (mp_limb_t)1 << 63; else if (norm == 0) { d[dn - 1] >>= rnd_below(63) + 1; if (!d[dn - 1]) d[dn - 1] = 1; }
  else { d[dn - 1] = (mp_limb_t)1 << 63; if (dn > 1 && (rnd64() & 1)) d[dn - 2] = 0; }       /* d1 = B/2 */
  if (d[dn - 1] == 0) d[dn - 1] = 1;
  build_dividend(n, nn, d, dn, how);
  fn_begin("mpn_tdiv_qr"); fn_in_limbs("n", n, nn); fn_in_int("nn", nn); fn_in_limbs("d", d, dn); fn_in_int("dn", dn); fn_mid();
  gb_fill(q, nn - dn + 1); gb_fill(r, dn);
  mpn_tdiv_qr(q, r, 0, n, nn, d, dn);
  fn_out_limbs("q", q, nn - dn + 1); fn_out_limbs("r", r, dn); fn_end();
  if (dn >= 1 && nn - dn + 1 >= 1) {
    fn_begin("mpn_tdiv_q"); fn_in_limbs("n", n, nn); fn_in_int("nn", nn); fn_in_limbs("d", d, dn); fn_in_int("dn", dn); fn_mid();
    gb_fill(q, nn - dn + 1); mpn_tdiv_q(q, n, nn, d, dn); fn_out_limbs("q", q, nn - dn + 1); fn_end();
  }
  if ((d[dn - 1] >> 63) && dn > 2) {
    /* schoolbook loop directly (asserted domain: dn > 2, divisor normalised); dividend is overwritten by the remainder */
    mp_ptr w = gb_get(4, nn, place); mp_limb_t dinv, qh;
    MPN_COPY(w, n, nn); mpir_invert_pi1(dinv, d[dn - 1], d[dn - 2]);
    fn_begin("mpn_sb_div_qr"); fn_in_limbs("n", n, nn); fn_in_int("nn", nn); fn_in_limbs("d", d, dn); fn_in_int("dn", dn); fn_mid();
    gb_fill(q, nn - dn + 1); qh = mpn_sb_div_qr(q, w, nn, d, dn, dinv); q[nn - dn] = qh;
    fn_out_limbs("q", q, nn - dn + 1); fn_out_limbs("r", w, dn); fn_end();
    if (nn - dn < 40 || (rnd64() % 8) == 0) {
      /* obsolete interface mpn_divrem with fraction limbs */
      mp_size_t qxn = rnd_below(3); mp_ptr qq = gb_get(5, nn - dn + qxn + 1, place);
      MPN_COPY(w, n, nn);
      fn_begin("mpn_divrem"); fn_in_limbs("n", n, nn); fn_in_int("nn", nn); fn_in_limbs("d", d, dn); fn_in_int("dn", dn); fn_in_int("qxn", qxn); fn_mid();
      qh = mpn_divrem(qq, qxn, w, nn, d, dn); qq[nn - dn + qxn] = qh;
      fn_out_limbs("q", qq, nn - dn + qxn + 1); fn_out_limbs("r", w, dn); fn_end();
    }
  }
}
void drv_c02_tdiv(int tier, unsigned long seed, const char *extra) {
  shard_t sh = shard_parse(extra); long x = 0; int i, j, how, norm;
  static const int thr[] = {1, 2, 3, 4, 11, 19, 21, 30, 50, 65, 100};         /* DIVREM_HENSEL, DC_DIVAPPR, DC_DIV_QR, DC_DIV_Q */
  static const int thr_t[] = {998, 1589};                                       /* INV_DIV_Q, INV_DIV_QR */
  int dns[80], nd = 0;
  if (sh.pure) { dns[nd++] = 1; dns[nd++] = 2; dns[nd++] = 3; dns[nd++] = 4; }
  else { nd = sizes_around(dns, 70, thr, 11, 1, 200); if (tier) nd += sizes_around(dns + nd, 10, thr_t, 2, 900, 1700); else { dns[nd++] = 998; dns[nd++] = 1590; } }
  for (i = 0; i < nd; i++) {
    int dn = dns[i]; int qs[12], nq = 0;
    qs[nq++] = 0; qs[nq++] = 1; qs[nq++] = 2; if (!sh.pure) { qs[nq++] = dn / 2 + 1; qs[nq++] = dn - 1 > 0 ? dn - 1 : 3; qs[nq++] = dn; qs[nq++] = dn + 1; qs[nq++] = 2 * dn + 1;
      if (dn < 300) qs[nq++] = 5 * dn + 3; if (dn >= 998) qs[nq++] = 2 * dn + 5; }
    for (j = 0; j < nq; j++) {
      x++; if (!MINE(sh, x)) continue;
      rec_reset("c02_tdiv", x, seed);
      for (how = 0; how < 6; how++) for (norm = 0; norm < 3; norm++) {
        if (dn > 300 && (how + norm) % 3) continue;
        tdiv_case(dn + qs[j], dn, how, norm, (how + norm) & 1);
      }
    }
  }
}

/* single-limb divisors: classes even, odd, 2^k, 2^k-1, B-1, normalised; every n up to 40 (mod_1 variants switch at small sizes) */
void drv_c02_div1(int tier, unsigned long seed, const char *extra) {
  shard_t sh = shard_parse(extra); long x = 0; mp_size_t n; int c, kind;
  mp_size_t maxn = sh.pure ? 5 : (tier ? 80 : 42);
  for (n = 1; n <= maxn; n++) for (kind = 0; kind < (sh.pure ? 2 : NKINDS); kind++) {
    x++; if (!MINE(sh, x)) continue;
    rec_reset("c02_div1", x, seed);
    for (c = 0; c < 9; c++) {
      mp_ptr a = gb_get(0, n, c & 1), q = gb_get(1, n + 3, c & 1); mp_limb_t d, r; mp_size_t qxn = c % 3;
      switch (c) { case 0: d = rnd64() | 1; break; case 1: d = rnd64() & ~(mp_limb_t)1; break; case 2: d = (mp_limb_t)1 << rnd_below(64); break;
        case 3: d = ((mp_limb_t)1 << (1 + rnd_below(63))) - 1; break; case 4: d = ~(mp_limb_t)0; break; case 5: d = rnd64() | ((mp_limb_t)1 << 63); break;
        case 6: d = 3; break; case 7: d = 1 + rnd_below(1000); break; default: d = rnd64() >> rnd_below(60); }
      if (d == 0) d = 1;
      rnd_limbs(a, n, kind);
      fn_begin("mpn_divrem_1"); fn_in_limbs("n", a, n); fn_in_int("nn", n); fn_in_u64("d", d); fn_in_int("qxn", qxn); fn_mid();
      gb_fill(q, n + qxn); r = mpn_divrem_1(q, qxn, a, n, d); fn_out_limbs("q", q, n + qxn); fn_out_u64("r", r); fn_end();
      fn_begin("mpn_mod_1"); fn_in_limbs("n", a, n); fn_in_int("nn", n); fn_in_u64("d", d); fn_mid(); r = mpn_mod_1(a, n, d); fn_out_u64("r", r); fn_end();
      if (c == 6) { mp_limb_t cin = rnd_below(3), ret;
        fn_begin("mpn_divexact_by3c"); fn_in_limbs("n", a, n); fn_in_int("k", n); fn_in_u64("c", cin); fn_mid();
        gb_fill(q, n); ret = mpn_divexact_by3c(q, a, n, cin); fn_out_limbs("q", q, n); fn_out_u64("ret", ret); fn_end(); }
      if (d & 1) { /* exact division by a limb: build a multiple */
        mp_ptr m = gb_get(2, n + 1, 1); m[n] = mpn_mul_1(m, a, n, d);
        fn_begin("mpn_divexact_1"); fn_in_limbs("n", m, n + 1); fn_in_int("nn", n + 1); fn_in_u64("d", d); fn_mid();
        gb_fill(q, n + 1); mpn_divexact_1(q, m, n + 1, d); fn_out_limbs("q", q, n + 1); fn_end(); }
    }
  }
}

/* mpz families: four sign combinations, quotient 0, exact multiples, d one limb (ui forms), 2exp forms, divisibility and congruence incl. d = 0 */
static void shrinkz(int i) { callf("mpz_realloc2", i, (uint64_t)(ABSIZ(Zp[i]) ? (uint64_t)ABSIZ(Zp[i]) * 64 : 1)); }
void drv_c02_mpz(int tier, unsigned long seed, const char *extra) {
  shard_t sh = shard_parse(extra); long x = 0; int i, k, sa, sb, j;
  static const int ln_q[] = {0, 1, 2, 3, 5, 12, 40, 70, 130}, ld_q[] = {1, 2, 3, 12, 51, 66};
  static const int ln_p[] = {0, 1, 2, 4}, ld_p[] = {1, 2};
  const int *ln = sh.pure ? ln_p : ln_q, *ld = sh.pure ? ld_p : ld_q; int nln = sh.pure ? 4 : 9, nld = sh.pure ? 2 : 6;
  static const char *two[] = {"mpz_tdiv_q", "mpz_tdiv_r", "mpz_fdiv_q", "mpz_fdiv_r", "mpz_cdiv_q", "mpz_cdiv_r", "mpz_mod"};
  static const char *qr[] = {"mpz_tdiv_qr", "mpz_fdiv_qr", "mpz_cdiv_qr"};
  static const char *ui3[] = {"mpz_tdiv_q_ui", "mpz_tdiv_r_ui", "mpz_fdiv_q_ui", "mpz_fdiv_r_ui", "mpz_cdiv_q_ui", "mpz_cdiv_r_ui", "mpz_mod_ui"};
  static const char *uiqr[] = {"mpz_tdiv_qr_ui", "mpz_fdiv_qr_ui", "mpz_cdiv_qr_ui"};
  static const char *ui2[] = {"mpz_tdiv_ui", "mpz_fdiv_ui", "mpz_cdiv_ui"};
  static const char *e2[] = {"mpz_tdiv_q_2exp", "mpz_tdiv_r_2exp", "mpz_fdiv_q_2exp", "mpz_fdiv_r_2exp", "mpz_cdiv_q_2exp", "mpz_cdiv_r_2exp"};
  static const uint64_t uis[] = {1, 2, 3, 7, 0x80000000UL, 0xffffffffUL, 0x100000000UL, 0x8000000000000000UL, 0xffffffffffffffffUL, 1000003};
  static const int shs[] = {0, 1, 63, 64, 65, 128, 131};
  for (i = 0; i < nln; i++) for (k = 0; k < nld; k++) {
    x++; if (!MINE(sh, x)) continue;
    rec_reset("c02_mpz", x, seed);
    for (j = 0; j < 6; j++) callf("mpz_init", j);
    for (sa = 0; sa < 2; sa++) for (sb = 0; sb < 2; sb++) {
      int variant;
      for (variant = 0; variant < 3; variant++) {
        /* variant 0: random; 1: exact multiple (r = 0); 2: |n| = |q*d| + |d| - 1 (largest remainder) */
        callf("drv_rndz", 1, ld[k], (int)rnd_below(NKINDS), sb);
        if (SIZ(Zp[1]) == 0) callf("mpz_set_ui", 1, (uint64_t)3);
        if (variant == 0) callf("drv_rndz", 0, ln[i], (int)rnd_below(NKINDS), sa);
        else { callf("drv_rndz", 5, ln[i] > ld[k] ? ln[i] - ld[k] : 1, 5, 0); callf("mpz_mul", 0, 5, 1); callf("mpz_abs", 0, 0);
               if (variant == 2) { callf("mpz_abs", 5, 1); callf("mpz_add", 0, 0, 5); callf("mpz_sub_ui", 0, 0, (uint64_t)1); }
               if (sa) callf("mpz_neg", 0, 0); }
        for (j = 0; j < 7; j++) { shrinkz(2); callf(two[j], 2, 0, 1); }
        for (j = 0; j < 3; j++) { shrinkz(2); shrinkz(3); callf(qr[j], 2, 3, 0, 1); }
        /* aliasing forms of the same */
        callf("mpz_set", 2, 0); shrinkz(2); callf("mpz_tdiv_q", 2, 2, 1); callf("mpz_set", 2, 1); shrinkz(2); callf("mpz_fdiv_r", 2, 0, 2);
        callf("mpz_set", 2, 0); callf("mpz_set", 3, 1); callf("mpz_cdiv_qr", 2, 3, 2, 3); callf("mpz_set", 2, 0); callf("mpz_set", 3, 1); callf("mpz_fdiv_qr", 3, 2, 2, 3);
        if (variant == 1) { shrinkz(2); callf("mpz_divexact", 2, 0, 1); callf("mpz_set", 2, 0); callf("mpz_divexact", 2, 2, 1); }
        callf("mpz_divisible_p", 0, 1);
        callf("drv_rndz", 4, (int)rnd_below(ln[i] + 2), 0, (int)(rnd64() & 1)); callf("mpz_congruent_p", 0, 4, 1);
        callf("mpz_fdiv_r", 4, 0, 1); callf("mpz_congruent_p", 0, 4, 1);                 /* congruent by construction */
      }
      /* single-limb divisors */
      for (j = 0; j < 10; j++) {
        int t; uint64_t u = uis[j];
        for (t = 0; t < 7; t++) { shrinkz(2); callf(ui3[t], 2, 0, u); }
        for (t = 0; t < 3; t++) { shrinkz(2); shrinkz(3); callf(uiqr[t], 2, 3, 0, u); callf(ui2[t], 0, u); }
        callf("mpz_divisible_ui_p", 0, u); callf("mpz_congruent_ui_p", 0, (uint64_t)rnd64(), u);
        callf("mpz_mul_ui", 4, 0, u); callf("mpz_divexact_ui", 2, 4, u); callf("mpz_divisible_ui_p", 4, u);
      }
      for (j = 0; j < 7; j++) { int t; for (t = 0; t < 6; t++) { shrinkz(2); callf(e2[t], 2, 0, (uint64_t)shs[j]); }
        callf("mpz_divisible_2exp_p", 0, (uint64_t)shs[j]); callf("mpz_mul_2exp", 4, 0, (uint64_t)shs[j]); callf("mpz_divisible_2exp_p", 4, (uint64_t)shs[j]);
        callf("mpz_congruent_2exp_p", 0, 4, (uint64_t)shs[j]); callf("mpz_add", 4, 4, 0); callf("mpz_congruent_2exp_p", 4, 0, (uint64_t)shs[j]); }
    }
    /* 2exp rounding corners: n = +-(2^t - 1), +-(2^t - 2^m), +-2^t, +-(2^t + 1) with t = 64a + c, shifted by counts around c, 64 and t:
       the quotient of all-ones limbs that the rounding increment carries out of, the top limb that shifts out completely, remainders of one bit */
    if (k == 0) { static const int cs[] = {1, 17, 63, 0, 32}; int a, ci, form, si;
      for (a = i % 2; a < 4; a += 2) for (ci = 0; ci < 5; ci++) for (form = 0; form < 4; form++) {
        int c = cs[ci], t = 64 * a + c; int sv[8], ns = 0; if (t == 0) continue;
        sv[ns++] = c ? c : 64; sv[ns++] = c + 64; sv[ns++] = t - 1; sv[ns++] = t; sv[ns++] = t + 1; sv[ns++] = 1; sv[ns++] = 63 + (int)rnd_below(3); sv[ns++] = (int)rnd_below(t + 3);
        callf("mpz_set_ui", 0, (uint64_t)1); callf("mpz_mul_2exp", 0, 0, (uint64_t)t);
        if (form == 0) callf("mpz_sub_ui", 0, 0, (uint64_t)1);
        else if (form == 1) { callf("mpz_set_ui", 4, (uint64_t)1); callf("mpz_mul_2exp", 4, 4, (uint64_t)rnd_below(t)); callf("mpz_sub", 0, 0, 4); }
        else if (form == 3) callf("mpz_add_ui", 0, 0, (uint64_t)1);
        for (sa = 0; sa < 2; sa++) { int t6;
          if (sa) callf("mpz_neg", 0, 0);
          for (si = 0; si < ns; si++) for (t6 = 0; t6 < 6; t6++) {
            if (sv[si] < 0) continue;
            shrinkz(2); callf(e2[t6], 2, 0, (uint64_t)sv[si]);
            if ((si + t6) % 3 == 0) { callf("mpz_set", 2, 0); shrinkz(2); callf(e2[t6], 2, 2, (uint64_t)sv[si]); } } }
      } }
    /* d = 0 where the manual defines it: only zero is divisible by zero; congruent mod 0 means equal */
    callf("mpz_set_ui", 1, (uint64_t)0); callf("mpz_divisible_p", 0, 1); callf("mpz_set_ui", 4, (uint64_t)0); callf("mpz_divisible_p", 4, 1);
    callf("mpz_divisible_ui_p", 0, (uint64_t)0); callf("mpz_divisible_ui_p", 4, (uint64_t)0);
    callf("mpz_set", 4, 0); callf("mpz_congruent_p", 0, 4, 1); callf("mpz_add_ui", 4, 4, (uint64_t)1); callf("mpz_congruent_p", 0, 4, 1);
    callf("mpz_congruent_ui_p", 0, (uint64_t)5, (uint64_t)0);
    for (j = 0; j < 6; j++) callf("mpz_clear", j);
    rec_quiesce();
  }
}
