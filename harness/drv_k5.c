/* K5: internal number-theoretic helpers the properties C09 / C16 are anchored in, called directly (fn events decided by SemK5.tla):
   mpn_rootrem (with and without remainder), mpn_rootrem_basecase, mpn_fib2_ui, mpz_oddfac_1, mpz_prodlimbs, mpz_trial_division,
   gmp_primesieve, gmp_nextprime. */
#include "util.h"
#include <math.h>
#ifndef ODD_FACTORIAL_TABLE_LIMIT
#define ODD_FACTORIAL_TABLE_LIMIT 25      /* mpz/oddfac_1.c (64-bit limbs) */
#endif

/* u = r^k + d for a root r of rl limbs; returns un (normalised, >= 1) */
static mp_size_t make_power(mp_ptr u, mp_size_t cap, mp_srcptr r, mp_size_t rl, unsigned long k, int d) {
  mpz_t z, rr; mp_size_t un;
  priv_begin();
  mpz_init(z); mpz_init(rr); mpz_import(rr, rl, -1, 8, 0, 0, r); mpz_pow_ui(z, rr, k);
  if (d > 0) mpz_add_ui(z, z, 1); else if (d < 0 && mpz_sgn(z) > 0) mpz_sub_ui(z, z, 1);
  if (mpz_sgn(z) == 0) mpz_set_ui(z, 1);
  un = mpz_size(z); if (un > cap) un = 0; else MPN_COPY(u, PTR(z), un);
  mpz_clear(z); mpz_clear(rr);
  priv_end();
  return un;
}
static void root_events(mp_srcptr u, mp_size_t un, unsigned long k, int place, int basecase_ok) {
  mp_size_t rootn = (un + k - 1) / k, rn; mp_ptr root = gb_get(2, rootn, place), rem = gb_get(3, un, place);
  fn_begin("mpn_rootrem"); fn_in_limbs("a", u, un); fn_in_int("n", un); fn_in_int("k", (long)k); fn_mid();
  gb_fill(root, rootn); gb_fill(rem, un); rn = mpn_rootrem(root, rem, u, un, k);
  fn_out_limbs("s", root, rootn); fn_out_limbs("r", rem, rn); fn_out_int("rn", rn); fn_end();
  fn_begin("mpn_rootrem_null"); fn_in_limbs("a", u, un); fn_in_int("n", un); fn_in_int("k", (long)k); fn_mid();
  gb_fill(root, rootn); rn = mpn_rootrem(root, NULL, u, un, k);
  fn_out_limbs("s", root, rootn); fn_out_int("rn", rn != 0); fn_end();
  if (basecase_ok) {
    fn_begin("mpn_rootrem_basecase"); fn_in_limbs("a", u, un); fn_in_int("n", un); fn_in_int("k", (long)k); fn_mid();
    gb_fill(root, rootn); gb_fill(rem, un); rn = mpn_rootrem_basecase(root, rem, u, un, k);
    fn_out_limbs("s", root, rootn); fn_out_limbs("r", rem, rn); fn_out_int("rn", rn); fn_end();
  }
}
void drv_k5_root(int tier, unsigned long seed, const char *extra) {
  shard_t sh = shard_parse(extra); long x = 0; int rl, ki, kind, d, place;
  static const unsigned long ks[] = {2, 3, 4, 5, 7, 8, 13, 16, 31, 63, 64, 65, 127, 200};
  int maxrl = sh.pure ? 1 : (tier ? 14 : 7);
  for (rl = 1; rl <= maxrl; rl++) for (ki = 0; ki < (sh.pure ? 4 : 14); ki++) for (kind = 0; kind < (sh.pure ? 2 : NKINDS); kind++) {
    unsigned long k = ks[ki];
    if ((long)rl * (long)k > (sh.pure ? 4 : (tier ? 900 : 260))) continue;
    x++; if (!MINE(sh, x)) continue;
    rec_reset("k5_root", x, seed);
    for (place = 0; place < 2; place++) for (d = -1; d <= 2; d++) {
      mp_ptr r = gb_get(0, rl, 1), u = gb_get(1, rl * k + 2, place); mp_size_t un;
      rnd_limbs(r, rl, kind); if (!r[rl - 1]) r[rl - 1] = 1;
      if (kind == 1) { mp_size_t j; for (j = 0; j < rl; j++) r[j] = ~(mp_limb_t)0; }          /* root B^rl - 1: every estimate rounds up */
      if (kind == 2) { mp_size_t j; for (j = 0; j < rl; j++) r[j] = 0; r[rl - 1] = (mp_limb_t)1 << (rnd_below(64)); }   /* power of two */
      if (d < 2) un = make_power(u, rl * k + 2, r, rl, k, d);
      else { un = 1 + rnd_below(rl * k); rnd_limbs(u, un, kind); if (!u[un - 1]) u[un - 1] = 1; }
      if (!un) continue;
      { mp_ptr uu = gb_get(4, un, place); MPN_COPY(uu, u, un); root_events(uu, un, k, place, un < ROOTREM_THRESHOLD); }
    }
    /* small operands with a huge index (root 1), one-limb operands, index above the bit length */
    { mp_ptr u = gb_get(4, 2, 1); u[0] = rnd64() | 1; u[1] = rnd64() | 1; root_events(u, 2, 1000 + rnd_below(50), 1, 1); root_events(u + 1, 1, 2 + rnd_below(70), 1, 1); u[1] = 1; root_events(u + 1, 1, 3, 1, 1); }
  }
}

void drv_k5_comb(int tier, unsigned long seed, const char *extra) {
  shard_t sh = shard_parse(extra); long x = 0; unsigned long n; int i;
  /* --- mpn_fib2_ui: every n to 400 (all table/doubling boundaries), then a geometric sample --- */
  for (n = 0; n <= (sh.pure ? 90 : (tier ? 200000 : 40000)); n = n < (sh.pure ? 90 : 400) ? n + 1 : n * 5 / 4 + (rnd64() & 1)) {
    mp_size_t sz = MPN_FIB2_SIZE(n), ret; mp_ptr f, f1;
    x++; if (!MINE(sh, x)) continue;
    rec_reset("k5_comb", x, seed);
    f = gb_get(0, sz, n & 1); f1 = gb_get(1, sz, n & 1);
    fn_begin("mpn_fib2_ui"); fn_in_int("n", (long)n); fn_mid(); gb_fill(f, sz); gb_fill(f1, sz); ret = mpn_fib2_ui(f, f1, n);
    fn_out_limbs("f", f, ret); fn_out_limbs("f1", f1, ret); fn_out_int("ret", ret); fn_out_u64("top", f[ret - 1]); fn_end();
  }
  /* --- mpz_oddfac_1 (flag 0: odd part of n!; flag 1 above the table and DSC thresholds: the square is skipped) --- */
  for (n = 0; n <= (sh.pure ? 30 : (tier ? 30000 : 6000)); n = n < (sh.pure ? 30 : 160) ? n + 1 : n * 9 / 8 + (rnd64() & 1)) {
    int fl; x++; if (!MINE(sh, x)) continue;
    rec_reset("k5_comb", x, seed);
    for (fl = 0; fl < 2; fl++) { mpz_t z;
      if (fl && !((n & 1) && n > ODD_FACTORIAL_TABLE_LIMIT && ABOVE_THRESHOLD(n, FAC_DSC_THRESHOLD))) continue;
      fn_begin("mpz_oddfac_1"); fn_in_int("n", (long)n); fn_in_int("flag", fl); fn_mid();
      mpz_init(z); mpz_oddfac_1(z, n, fl);
      { mp_size_t zs = SIZ(z), za = ABSIZ(z); int wf = SIZ(z) > 0 && PTR(z)[SIZ(z) - 1] != 0 && ALLOC(z) >= SIZ(z); mp_ptr cp = malloc(8 * (za + 1)); MPN_COPY(cp, PTR(z), za); mpz_clear(z);   /* allocator events before the outputs */
        fn_out_limbs("r", cp, za); fn_out_int("sz", zs); fn_out_int("wf", wf); free(cp); } fn_end(); }
  }
  /* --- mpz_prodlimbs: j non-zero limbs (2 .. beyond RECURSIVE_PROD_THRESHOLD), contents small factors / all ones / random --- */
  for (i = 2; i <= (sh.pure ? 3 : (tier ? 400 : 120)); i += (i < 40 ? 1 : 1 + i / 7)) { int kind;
    x++; if (!MINE(sh, x)) continue;
    rec_reset("k5_comb", x, seed);
    for (kind = 0; kind < 4; kind++) { mp_ptr fac = gb_get(0, i, 1), keep = gb_get(1, i, 1); mpz_t z; mp_size_t ret, j; char *buf, *p;
      for (j = 0; j < i; j++) fac[j] = kind == 0 ? 3 + 2 * (mp_limb_t)rnd_below(1000) : kind == 1 ? ~(mp_limb_t)0 : kind == 2 ? (rnd64() | 1) : ((mp_limb_t)1 << rnd_below(64));
      MPN_COPY(keep, fac, i);
      buf = malloc(20 * (size_t)i + 8); p = buf; *p++ = '[';
      for (j = 0; j < i; j++) p += sprintf(p, "%s\"%lx\"", j ? "," : "", (unsigned long)keep[j]);
      *p++ = ']'; *p = 0;
      fn_begin("mpz_prodlimbs"); fn_in_raw("fs", buf); fn_in_int("j", i); fn_mid();
      mpz_init(z); ret = mpz_prodlimbs(z, fac, i);
      { mp_size_t zs = SIZ(z), za = ABSIZ(z); mp_ptr cp = malloc(8 * (za + 1)); MPN_COPY(cp, PTR(z), za); mpz_clear(z);
        fn_out_limbs("r", cp, za); fn_out_int("ret", ret); fn_out_int("sz", zs); free(cp); } fn_end();
      free(buf); }
  }
}

void drv_k5_prime(int tier, unsigned long seed, const char *extra) {
  shard_t sh = shard_parse(extra); long x = 0; unsigned long n; int i;
  /* --- gmp_primesieve: every n from 5 to 700, then a sample; the whole bit array is logged --- */
  for (n = 5; n <= (sh.pure ? 60 : (tier ? 60000 : 9000)); n = n < (sh.pure ? 60 : 700) ? n + 1 : n * 6 / 5 + rnd_below(7)) {
    mp_size_t sz = ((n - 5) | 1) / 3 / GMP_LIMB_BITS + 1; mp_ptr b; mp_limb_t ret;
    x++; if (!MINE(sh, x)) continue;
    rec_reset("k5_prime", x, seed);
    b = gb_get(0, sz, n & 1);
    fn_begin("gmp_primesieve"); fn_in_int("n", (long)n); fn_mid(); gb_fill(b, sz); ret = gmp_primesieve(b, n);
    fn_out_limbs("bits", b, sz); fn_out_int("ret", (long)ret); fn_end();
  }
  /* --- gmp_nextprime: the sequence from a fresh sieve (several re-sieve boundaries: SIEVESIZE) --- */
  for (i = 0; i < (sh.pure ? 1 : 2); i++) { gmp_primesieve_t ps; unsigned long prev = 0, p; long cnt = sh.pure ? 40 : (tier ? 30000 : 4000) * (i + 1), c;
    x++; if (!MINE(sh, x)) continue;
    rec_reset("k5_prime", x, seed);
    gmp_init_primesieve(&ps);
    for (c = 0; c < cnt; c++) { fn_begin("gmp_nextprime"); fn_in_int("prev", (long)prev); fn_mid(); p = gmp_nextprime(&ps); fn_out_int("p", (long)p); fn_end(); prev = p; }
  }
  /* --- mpz_trial_division: N = product of chosen primes (no divisor below start), every start/stop relation to the least factor --- */
  { static const unsigned long pr[] = {2, 3, 5, 7, 11, 13, 25, 49, 101, 1009, 65521, 65537, 1000003};
    int a, b2, c;
    for (a = 0; a < 13; a++) for (b2 = a; b2 < 13; b2 += 3) { mpz_t N;
      x++; if (!MINE(sh, x)) continue;
      if (sh.pure && a > 6) continue;
      rec_reset("k5_prime", x, seed);
      for (c = 0; c < 8; c++) { unsigned long lo = pr[a], start, stop, ret; char *hx;
        unsigned long big = (c & 1) ? 1 : 0;
        priv_begin(); mpz_init_set_ui(N, pr[a]); mpz_mul_ui(N, N, pr[b2]); if (big) { mpz_t t; mpz_init(t); mpz_ui_pow_ui(t, 1000003UL, 7 + c); mpz_mul(N, N, t); mpz_clear(t); } priv_end();
        /* the precondition: N has no divisor in [2, start) */
        start = c < 2 ? 0 : c < 4 ? lo : c < 6 ? (lo > 2 ? lo - 1 : 1) : 1 + rnd_below(lo);
        stop = (c & 2) ? lo : (c & 4) ? lo + 1 : lo + 1 + rnd_below(5000);     /* stop = least factor (excluded), +1 (included), beyond */
        if (pr[a] == 25 || pr[a] == 49) { if (start < 2 || start > (pr[a] == 25 ? 5 : 7)) start = pr[a] == 25 ? 5 : 7; lo = pr[a] == 25 ? 5 : 7; }
        hx = hex_of_limbs(PTR(N), ABSIZ(N), 0);
        fn_begin("mpz_trial_division"); fn_in_str("N", hx); fn_in_int("start", (long)start); fn_in_int("stop", (long)stop); fn_mid();
        ret = mpz_trial_division(N, start, stop); fn_out_int("ret", (long)ret); fn_end(); free(hx);
        priv_begin(); mpz_clear(N); priv_end(); }
    }
  }
}
